(* Replays a hooked SAT-level trace through the extracted `replay` (coq/Trace/TraceSound.v).
   One trace per line: events separated by ';' :  o:<lits>  t:<lits>  d:<lits>  (d = learnt/derived/final)
     a:<lits>   sets the current assumptions
     q          an `unsat` answer to certify: rup (assumption units ++ db) [] must hold
   lits are comma separated DIMACS integers.  Output: one token per d / q event: ok | FAIL, space separated. *)
open Trace_model
let rec pos_of_int n = if n = 1 then XH else if n land 1 = 1 then XI (pos_of_int (n lsr 1)) else XO (pos_of_int (n lsr 1))
let z_of_int n = if n = 0 then Z0 else if n > 0 then Zpos (pos_of_int n) else Zneg (pos_of_int (-n))
let lits s = List.map (fun x -> z_of_int (int_of_string x)) (List.filter (fun x -> x <> "") (String.split_on_char ',' s))
let () =
  try while true do
    let line = input_line stdin in
    let evs = List.filter (fun s -> s <> "") (String.split_on_char ';' line) in
    let db = ref [] and assum = ref [] in
    let out = Buffer.create 64 in
    List.iter (fun e ->
      let kind, body = match String.index_opt e ':' with
        | Some i -> String.sub e 0 i, String.sub e (i + 1) (String.length e - i - 1)
        | None -> e, "" in
      match kind with
      | "o" -> (match replay !db [Input (lits body)] with Some d -> db := d | None -> ())
      | "t" -> (match replay !db [Theory (lits body)] with Some d -> db := d | None -> ())
      | "d" -> (match replay !db [Derive (lits body)] with
                | Some d -> db := d; Buffer.add_string out "ok "
                | None -> db := lits body :: !db; Buffer.add_string out "FAIL ")
      | "a" -> assum := lits body
      | "q" -> let units = List.map (fun l -> [l]) !assum in
               Buffer.add_string out (if rup (units @ !db) [] then "ok " else "FAIL ")
      | _ -> ()) evs;
    print_endline (Buffer.contents out)
  done with End_of_file -> ()
