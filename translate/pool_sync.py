#!/usr/bin/env python3
"""C24 translator: regenerate coq/Conc/Gen_PoolSync.v from the text of
src/common/numbers/FastRational.{h,cc}.

What is read off the source (and nothing else):
  * the declaration of the static pool object   `inline static [thread_local] mpqPool pool;`
  * the members of `class mpqPool` (the two containers, the public methods - exactly alloc/release)
  * the bodies of `mpqPool::alloc` and `mpqPool::release`: the order of the container operations
    (.empty() .top() .pop() .emplace() / .push()) and whether a critical section
    (std::lock_guard / scoped_lock / unique_lock on one and the same mutex, taken before the first
    container operation) wraps BOTH bodies
  * every other place that touches the private containers (there must be none)

Result: Definition locked : bool  (true: mutex in both bodies, or the pool object is thread_local so
that each pool instance is confined to one thread), the micro-step orders, and a discipline tag.
If the code is not recognised the translator says so (ok=False) and the check reports a broken tie;
it never guesses.
"""
import os
import re
import sys

VERIF = os.path.dirname(os.path.dirname(os.path.abspath(__file__)))
OUT = os.path.join(VERIF, "coq", "Conc", "Gen_PoolSync.v")


def strip_comments(txt):
    """comments out; also the add-only verification hooks (#ifdef OPENSMT_VERIF ... #endif), which are
    not part of the production code the model is about (line structure is kept)"""
    txt = re.sub(r"/\*.*?\*/", lambda m: "\n" * m.group(0).count("\n"), txt, flags=re.S)
    txt = re.sub(r"//[^\n]*", "", txt)
    return re.sub(r"^[ \t]*#[ \t]*ifdef[ \t]+OPENSMT_VERIF\b.*?^[ \t]*#[ \t]*endif[^\n]*", lambda m: "\n" * m.group(0).count("\n"),
                  txt, flags=re.S | re.M)


def block_after(txt, pos):
    """text of the {...} block whose '{' is the first one at or after pos; returns (body, end)"""
    i = txt.index("{", pos)
    depth, j = 0, i
    while j < len(txt):
        if txt[j] == "{":
            depth += 1
        elif txt[j] == "}":
            depth -= 1
            if depth == 0:
                return txt[i + 1:j], j + 1
        j += 1
    raise ValueError("unbalanced braces")


GUARD = re.compile(r"std::(lock_guard|scoped_lock|unique_lock)\s*(?:<[^>]*>)?\s*\w+\s*[({]\s*([\w:.>-]+)\s*[)}]")
OPS = [("MEmpty", r"\b(\w+)\s*\.\s*empty\s*\("), ("MTop", r"\b(\w+)\s*\.\s*top\s*\("), ("MPop", r"\b(\w+)\s*\.\s*pop\s*\("),
       ("MEmplace", r"\b(\w+)\s*\.\s*emplace\s*\("), ("MPush", r"\b(\w+)\s*\.\s*push\s*\(")]


def ops_in(body):
    found = []
    for name, rx in OPS:
        for m in re.finditer(rx, body):
            found.append((m.start(), name, m.group(1)))
    found.sort()
    return found


def analyse(repo):
    r = dict(ok=False, locked=False, discipline="none", detail="", alloc_order=[], release_order=[], anchors={})
    h_path = os.path.join(repo, "src/common/numbers/FastRational.h")
    c_path = os.path.join(repo, "src/common/numbers/FastRational.cc")
    try:
        h_raw, c_raw = open(h_path).read(), open(c_path).read()
    except OSError as e:
        r["detail"] = "cannot read source: %s" % e
        return r
    h, c = strip_comments(h_raw), strip_comments(c_raw)

    # --- class mpqPool -----------------------------------------------------------------------
    m = re.search(r"\bclass\s+mpqPool\b", h)
    if not m:
        r["detail"] = "class mpqPool not found in FastRational.h"
        return r
    cls, _ = block_after(h, m.end())
    r["anchors"]["class"] = "FastRational.h:%d" % (h[:m.start()].count("\n") + 1)
    methods = re.findall(r"\b(\w+)\s*\([^)]*\)\s*(?:const\s*)?(?:noexcept\s*)?[;{]", cls)
    methods = [x for x in methods if x not in ("stack", "vector", "deque", "lock_guard", "scoped_lock", "unique_lock", "mutex")]
    if sorted(set(methods)) != ["alloc", "release"]:
        r["detail"] = "mpqPool has methods %s, expected exactly alloc and release" % sorted(set(methods))
        return r
    containers = re.findall(r"std::stack\s*<[^;]*>\s*(\w+)\s*;", cls)
    if sorted(containers) != ["pool", "store"]:
        r["detail"] = "mpqPool containers are %s, expected the stacks `store` and `pool`" % containers
        return r
    cls_mutexes = re.findall(r"(?:mutable\s+)?std::(?:recursive_)?mutex\s+(\w+)\s*;", cls)

    # --- the static object ---------------------------------------------------------------------
    decl = re.search(r"^[ \t]*((?:inline\s+|static\s+|thread_local\s+)+)mpqPool\s+pool\s*;", h, re.M)
    if not decl:
        r["detail"] = "declaration of the static `mpqPool pool` not found in FastRational.h"
        return r
    quals = decl.group(1).split()
    r["anchors"]["object"] = "FastRational.h:%d" % (h[:decl.start()].count("\n") + 1)
    if "static" not in quals:
        r["detail"] = "`mpqPool pool` is no longer static: the model (one process-wide pool) does not apply"
        return r
    thread_local = "thread_local" in quals

    # --- the two bodies ------------------------------------------------------------------------
    bodies = {}
    for name in ("alloc", "release"):
        src, which = c, "FastRational.cc"
        mm = re.search(r"\bFastRational\s*::\s*mpqPool\s*::\s*%s\s*\(" % name, c)
        if not mm:
            mm = re.search(r"\b%s\s*\([^)]*\)\s*\{" % name, cls)     # defined inside the class
            if not mm:
                r["detail"] = "body of mpqPool::%s not found" % name
                return r
            body, _ = block_after(cls, mm.start())
            r["anchors"][name] = r["anchors"]["class"] + " (inline)"
        else:
            body, _ = block_after(src, mm.end())
            r["anchors"][name] = "%s:%d" % (which, src[:mm.start()].count("\n") + 1)
        bodies[name] = body

    a_ops, r_ops = ops_in(bodies["alloc"]), ops_in(bodies["release"])
    r["alloc_order"] = [n for _, n, _ in a_ops]
    r["release_order"] = [n for _, n, _ in r_ops]
    objs = {n: o for _, n, o in a_ops + r_ops}
    if r["alloc_order"] != ["MEmpty", "MTop", "MPop", "MEmplace"] or r["release_order"] != ["MPush"]:
        r["detail"] = "container operations are alloc=%s release=%s; the model has alloc=[empty,top,pop | emplace] release=[push]" % (
            r["alloc_order"], r["release_order"])
        return r
    if not (objs["MEmpty"] == objs["MTop"] == objs["MPop"] == objs["MPush"] == "pool" and objs["MEmplace"] == "store"):
        r["detail"] = "container operations act on unexpected objects: %s" % objs
        return r
    if not re.search(r"if\s*\(\s*!\s*pool\s*\.\s*empty\s*\(\s*\)\s*\)", bodies["alloc"]):
        r["detail"] = "alloc no longer branches on `!pool.empty()`"
        return r

    # --- nobody else touches the containers -------------------------------------------------------
    rest_h = h.replace(cls, "")
    for txt, nm in ((rest_h, "FastRational.h"), (c.replace(bodies["alloc"], "").replace(bodies["release"], ""), "FastRational.cc")):
        bad = re.search(r"\bpool\s*\.\s*(?!alloc\b|release\b)(\w+)\s*\(", txt)
        if bad:
            r["detail"] = "%s uses pool.%s(...) outside alloc/release" % (nm, bad.group(1))
            return r

    # --- critical sections -----------------------------------------------------------------------
    guards = {}
    for name, ops in (("alloc", a_ops), ("release", r_ops)):
        g = GUARD.search(bodies[name])
        if g and g.start() < ops[0][0]:
            guards[name] = g.group(2)
        elif g:
            r["detail"] = "mpqPool::%s takes its lock after the first container operation" % name
            return r
        elif re.search(r"\.\s*(try_)?lock\s*\(", bodies[name]):
            r["detail"] = "mpqPool::%s locks by hand; only scope guards are recognised" % name
            return r
    if guards:
        if set(guards) != {"alloc", "release"}:
            r["detail"] = "only %s has a lock guard: the two operations are not mutually exclusive" % sorted(guards)
            return r
        if guards["alloc"] != guards["release"]:
            r["detail"] = "alloc and release lock different mutexes (%s / %s)" % (guards["alloc"], guards["release"])
            return r
        mtx = guards["alloc"].split("::")[-1].split(".")[-1]
        static_mtx = re.search(r"static\s+(?:inline\s+)?std::(?:recursive_)?mutex\s+%s\b" % re.escape(mtx), h + c)
        if mtx not in cls_mutexes and not static_mtx:
            r["detail"] = "lock guard names `%s`, which is neither a std::mutex member of mpqPool nor a static mutex" % guards["alloc"]
            return r
        r.update(ok=True, locked=True, discipline="thread_local+mutex" if thread_local else "mutex",
                 detail="both bodies start with a scope guard on %s" % guards["alloc"])
        return r
    if thread_local:
        r.update(ok=True, locked=True, discipline="thread_local",
                 detail="the pool object is thread_local: every pool instance is confined to one thread")
        return r
    r.update(ok=True, locked=False, discipline="none",
             detail="static pool shared by all threads; neither body takes a lock")
    return r


def analyse_all(repo):
    r = analyse(repo)
    try:
        r["shared_state"] = shared_state(repo)
    except Exception as e:      # the scan must not hide a recognised pool
        r["shared_state"] = ["scan-failed: %s" % e]
    return r




# ------------------------------------------------------------------------------------------------
# every other piece of mutable state with static storage duration in the library (src/ except bin/ and
# parallel/): `static` data (class members, function-local, file scope) and namespace-scope variables
# that are not const / constexpr / thread_local / std::atomic.  The list is compared, name by name, with
# the list reviewed in Conc/Pool.v (reviewed_shared_state): a new entry is unreviewed shared state.
# ------------------------------------------------------------------------------------------------
def _strip_all(txt):
    txt = strip_comments(txt)
    return re.sub(r'"(?:\\.|[^"\\\n])*"', '""', txt)


SKIP_Q=re.compile(r"\b(const|constexpr|thread_local|consteval)\b")
def scan_statics(repo):
    out=[]
    root=os.path.join(repo,"src")
    for d,_,fs in os.walk(root):
        rel=os.path.relpath(d,root)
        if rel.split(os.sep)[0] in ("bin","parallel"): continue
        for f in sorted(fs):
            if not f.endswith((".h",".hpp",".cc",".C",".cpp")): continue
            txt=_strip_all(open(os.path.join(d,f),errors="replace").read())
            # statement-wise: find 'static' declarations
            for m in re.finditer(r"(?m)(?:^|(?<=[;{}]))[ \t]*((?:inline[ \t]+|mutable[ \t]+)*static[ \t]+(?:inline[ \t]+)?)([^;{}()=]*?)\b([A-Za-z_]\w*)[ \t]*(\[[^\]]*\])?[ \t]*(=|;|\{|\()", txt):
                quals,typ,name,arr,term=m.group(1),m.group(2),m.group(3),m.group(4),m.group(5)
                full=m.group(0)
                if re.search(r"static_(cast|assert)",full): continue
                if SKIP_Q.search(typ) or SKIP_Q.search(quals): 
                    # pointer-to-const that is itself mutable:  static const char* x  -> mutable pointer, but never written: keep out (immutable data)
                    continue
                if "std::atomic" in typ: continue
                if not typ.strip(): continue
                if term=="(":
                    # function declaration unless first argument is a literal
                    rest=txt[m.end():m.end()+40].lstrip()
                    a=re.match(r'["\d\-]|([A-Za-z_][\w:]*)\s*[,)]',rest)
                    if not a: continue
                    if a.group(1) and re.fullmatch(r"(int|bool|void|char|unsigned|long|short|double|float|size_t|uint32_t|uint64_t|int32_t|int64_t|auto)",a.group(1)): continue
                    if a.group(1) and (a.group(1)[0].isupper() and not a.group(1).endswith("_Undef") and not a.group(1).isupper()) : continue
                if typ.strip() in ("class","struct","enum","union") : continue
                if re.match(r"(class|struct|enum|union)\b",typ.strip()) and term=="{": continue
                line=txt[:m.start()].count("\n")+1
                out.append((os.path.join(rel,f),name,typ.strip(),line))
    return out


KW=re.compile(r"^(using|typedef|class|struct|enum|union|namespace|return|extern|template|friend|static|inline\s+static|const|constexpr|inline\s+const|inline\s+constexpr|thread_local|#|public|private|protected|case|goto|break|continue|delete|throw|else)\b")
def scan_globals(repo):
    out=[]
    root=os.path.join(repo,"src")
    for d,_,fs in os.walk(root):
        rel=os.path.relpath(d,root)
        if rel.split(os.sep)[0] in ("bin","parallel"): continue
        for f in sorted(fs):
            if not f.endswith((".h",".hpp",".cc",".C",".cpp")): continue
            txt=_strip_all(open(os.path.join(d,f),errors="replace").read())
            txt=re.sub(r"(?m)^[ \t]*#.*$","",txt)
            stack=[]; stmt_start=0; i=0; n=len(txt)
            while i<n:
                ch=txt[i]
                if ch=="{":
                    head=txt[stmt_start:i]
                    is_ns=bool(re.search(r"\bnamespace\b[\s\w:]*$",head)) or bool(re.search(r'extern\s*""\s*$',head))
                    # brace initialiser of a namespace-scope variable:  T name{...};  keep scanning inside as non-namespace
                    stack.append(is_ns)
                    if is_ns: stmt_start=i+1
                elif ch=="}":
                    if stack:
                        was=stack.pop()
                        if was: stmt_start=i+1
                        elif all(stack):
                            # end of a non-namespace block at namespace scope: a following ';' closes the statement
                            pass
                elif ch==";" and all(stack):
                    st=txt[stmt_start:i].strip(); stmt_start=i+1
                    s1=re.sub(r"\{.*\}","{}",st,flags=re.S)
                    if s1 and not KW.match(s1) and "(" not in s1 and "operator" not in s1:
                        m=re.match(r"^([\w:<>,\*&\s]+?)[\s\*&]+([A-Za-z_]\w*)\s*(\[[^\]]*\])?\s*(=.*|\{\})?$",s1,flags=re.S)
                        if m and not SKIP_Q.search(m.group(1)) and "std::atomic" not in m.group(1):
                            out.append((os.path.join(rel,f),m.group(2),re.sub(r"\s+"," ",m.group(1)),txt[:i].count("\n")+1))
                i+=1
    return out


def shared_state(repo):
    """sorted list of 'dir/file:name' of mutable static-storage objects"""
    items = {"%s:%s" % (f, n) for f, n, _, _ in scan_statics(repo)} | {"%s:%s" % (f, n) for f, n, _, _ in scan_globals(repo)}
    return sorted(items)


def render(r):
    disc = {"none": 0, "mutex": 1, "thread_local": 2, "thread_local+mutex": 3}[r["discipline"]]
    return """(* GENERATED by translate/pool_sync.py from src/common/numbers/FastRational.{h,cc} - do not edit.
   %s
   anchors: %s *)
From Coq Require Import List String.
Import ListNotations.
From OsmtV.Conc Require Import Pool.
Local Open Scope string_scope.

Definition locked : bool := %s.
(* 0 = no synchronisation, 1 = mutex in alloc and release, 2 = thread_local pool, 3 = both *)
Definition discipline : nat := %d.
(* container operations in statement order, as found in the two method bodies *)
Definition alloc_order : list micro := [%s].
Definition release_order : list micro := [%s].
(* mutable objects with static storage duration found in src/ (not const/constexpr/thread_local/std::atomic;
   bin/ and parallel/ excluded), as "dir/file:name" *)
Definition shared_state : list string := [
%s].
""" % (r["detail"], ", ".join("%s=%s" % kv for kv in sorted(r["anchors"].items())),
       "true" if r["locked"] else "false", disc, "; ".join(r["alloc_order"]), "; ".join(r["release_order"]),
       ";\n".join('  "%s"' % s for s in r.get("shared_state", [])))


def regenerate(repo, out=OUT):
    """Analyse and (when recognised) write Gen_PoolSync.v if its content changed. Returns the analysis."""
    r = analyse_all(repo)
    if r["ok"]:
        txt = render(r)
        old = open(out).read() if os.path.exists(out) else None
        if old != txt:
            os.makedirs(os.path.dirname(out), exist_ok=True)
            with open(out, "w") as f:
                f.write(txt)
            r["written"] = True
    return r


if __name__ == "__main__":
    res = regenerate(sys.argv[1] if len(sys.argv) > 1 else os.environ.get("VERIF_REPO", "/repo"))
    print({k: v for k, v in res.items()})
    sys.exit(0 if res["ok"] else 1)
