#!/usr/bin/env python3
"""Regenerate coq/Pipe/Gen_PipeFlags.v from the text of Interpret::interpPipe (src/api/Interpret.cc).

What is translated (so that an edit there changes the Coq model and can break a proof):
  * the per-character flag update of the scanner loop (everything between `char c = buf[i];` and the
    parenthesis counting `if (c == '(')`): a small statement language (if / else if / else, assignment
    of a bool flag, `continue`, `assert`) over the declared flags and `c`  ->  gen_flag_step
  * the initial buffer size                                                ->  gen_init_buf_sz
  * the frame-emission condition and the unbalanced condition on `par`     ->  gen_emit_cond, gen_unbal_cond
  * whether a fourth flag (string escape state) is declared                ->  gen_has_string_escape
Everything else of the function is compared token by token (comments and layout ignored, `and/or/not`
normalised) with the skeleton below, which is what Pipe/PipeModel.v models by hand (buffer growth, read
size, frame copy, remainder shift, parse + execute, done).  When the function no longer matches, the
translator reports a *broken tie* (exit status 3 / TranslatorError) and leaves the old file alone.

usage: pipe_flags.py [--repo /repo] [--out /verif/coq/Pipe/Gen_PipeFlags.v] [--check]
"""
import os
import re
import sys

HERE = os.path.dirname(os.path.abspath(__file__))
VERIF = os.path.dirname(HERE)


class TranslatorError(Exception):
    pass


TOKEN_RE = re.compile(r"""
    (?P<ws>\s+)
  | (?P<lc>//[^\n]*)
  | (?P<bc>/\*.*?\*/)
  | (?P<hole>@[A-Z_]+@)
  | (?P<chr>'(?:\\.|[^\\'])')
  | (?P<str>"(?:\\.|[^\\"])*")
  | (?P<id>[A-Za-z_][A-Za-z_0-9]*)
  | (?P<num>[0-9]+)
  | (?P<op>\+\+|--|==|!=|<=|>=|&&|\|\||->|::|\+=|-=|\*=|<<|>>|[-+*/%<>=!&|^~?:;,.(){}\[\]])
""", re.X | re.S)

NORM = {"and": "&&", "or": "||", "not": "!"}


def tokenize(src):
    out, i = [], 0
    while i < len(src):
        m = TOKEN_RE.match(src, i)
        if not m:
            raise TranslatorError("cannot tokenize C++ at: %r" % src[i:i + 40])
        i = m.end()
        k = m.lastgroup
        if k in ("ws", "lc", "bc"):
            continue
        t = m.group(k)
        out.append(NORM.get(t, t))
    return out


def function_text(src, head):
    """Text of the function whose header starts with `head` (up to the matching closing brace)."""
    p = src.find(head)
    if p < 0:
        raise TranslatorError("function %r not found" % head)
    toks_start = p
    i = src.index("{", p)
    depth, j, n = 0, i, len(src)
    while j < n:
        ch = src[j]
        if src.startswith("//", j):
            j = src.index("\n", j)
            continue
        if src.startswith("/*", j):
            j = src.index("*/", j) + 2
            continue
        if ch == "'":
            m = re.match(r"'(?:\\.|[^\\'])'", src[j:])
            if m:
                j += m.end()
                continue
        if ch == '"':
            m = re.match(r'"(?:\\.|[^\\"])*"', src[j:])
            if m:
                j += m.end()
                continue
        if ch == "{":
            depth += 1
        elif ch == "}":
            depth -= 1
            if depth == 0:
                return src[toks_start:j + 1], src.count("\n", 0, toks_start) + 1
        j += 1
    raise TranslatorError("unbalanced braces in %r" % head)


# The function as Pipe/PipeModel.v models it.  @NAME@ are holes (see module docstring).
SKELETON = r"""
int Interpret :: interpPipe ( ) {
  int buf_sz = @INIT_BUFSZ@ ;
  char * buf = ( char * ) malloc ( sizeof ( char ) * buf_sz ) ;
  int rd_head = 0 ;
  int par = 0 ;
  int i = 0 ;
  @BOOLDECLS@
  bool done = false ;
  buf [ 0 ] = '\0' ;
  while ( ! done ) {
    assert ( i >= 0 && i <= rd_head ) ;
    assert ( buf [ rd_head ] == '\0' ) ;
    assert ( rd_head < buf_sz ) ;
    if ( rd_head == buf_sz - 1 ) {
      buf_sz *= 2 ;
      buf = ( char * ) realloc ( buf , sizeof ( char ) * buf_sz ) ;
    }
    int rd_chunk = buf_sz - rd_head - 1 ;
    assert ( rd_chunk > 0 ) ;
    int bts_rd = read ( STDIN_FILENO , & buf [ rd_head ] , rd_chunk ) ;
    if ( bts_rd == 0 ) { break ; }
    if ( bts_rd < 0 ) {
      char const * err_str = strerror ( errno ) ;
      notify_formatted ( true , @OPT_FMT@ err_str ) ;
      break ;
    }
    rd_head += bts_rd ;
    buf [ rd_head ] = '\0' ;
    for ( ; i < rd_head ; i ++ ) {
      char c = buf [ i ] ;
      @FLAGS@
      if ( c == '(' ) { par ++ ; }
      else if ( c == ')' ) {
        par -- ;
        if ( @EMIT@ ) {
          char * buf_out = ( char * ) malloc ( sizeof ( char ) * i + 2 ) ;
          for ( int j = 0 ; j <= i ; j ++ ) buf_out [ j ] = buf [ j ] ;
          buf_out [ i + 1 ] = '\0' ;
          for ( int j = i + 1 ; j < rd_head ; j ++ ) buf [ j - i - 1 ] = buf [ j ] ;
          buf [ rd_head - i - 1 ] = '\0' ;
          rd_head = rd_head - i - 1 ;
          i = - 1 ;
          Smt2newContext context ( buf_out ) ;
          int rval = osmt_yyparse ( & context ) ;
          if ( rval != 0 ) notify_formatted ( true , "scanner" ) ;
          else {
            const ASTNode * r = context . getRoot ( ) ;
            execute ( r ) ;
            done = f_exit ;
          }
          free ( buf_out ) ;
        }
        if ( @UNBAL@ ) {
          notify_formatted ( true , "pipe reader: unbalanced parentheses" ) ;
          done = true ;
        }
      }
    }
  }
  @OPT_PENDING@
  free ( buf ) ;
  return 0 ;
}
"""

FLAG_FIELDS = {"inComment": "fC", "inQuotedSymbol": "fQ", "inString": "fS"}


def match_skeleton(toks):
    sk = tokenize(SKELETON)
    holes = {}
    i = 0  # index into toks
    k = 0
    while k < len(sk):
        s = sk[k]
        if s.startswith("@") and s.endswith("@"):
            name = s[1:-1]
            nxt = sk[k + 1:k + 7]
            if name == "OPT_FMT":
                # optional:  "%s" ,   (message no longer used as a format)
                if toks[i:i + 2] == ['"%s"', ","]:
                    holes[name] = toks[i:i + 2]
                    i += 2
                else:
                    holes[name] = []
            elif name == "OPT_PENDING":
                # optional statement after the reader loop reporting input that ends inside a command:
                #   if ( <condition over done / par / flags> ) { notify_formatted ( true , "<text>" ) ; }
                if toks[i] == "if":
                    j = i
                    while j < len(toks) and toks[j] != "}":
                        j += 1
                    st = toks[i:j + 1]
                    allowed = {"if", "(", ")", "{", "}", "!", "&&", "||", ">", "<", "==", "!=", "0", "done", "par", "notify_formatted", "true", ",", ";"}
                    for t in st:
                        if t not in allowed and not t.startswith('"') and not re.fullmatch(r"in[A-Z][A-Za-z]*", t):
                            raise TranslatorError("statement after the reader loop not understood: %s" % " ".join(st))
                    if "notify_formatted" not in st:
                        raise TranslatorError("statement after the reader loop not understood: %s" % " ".join(st))
                    holes[name] = st
                    i = j + 1
                else:
                    holes[name] = []
            elif name == "INIT_BUFSZ":
                holes[name] = [toks[i]]
                i += 1
            elif name == "BOOLDECLS":
                decls = []
                while toks[i:i + 2] == ["bool", toks[i + 1]] and toks[i + 1] != "done":
                    if toks[i + 2] != "=" or toks[i + 4] != ";":
                        raise TranslatorError("flag declaration not of the form `bool x = v;` near token %d" % i)
                    decls.append((toks[i + 1], toks[i + 3]))
                    i += 5
                holes[name] = decls
            elif name == "FLAGS":
                # up to the first statement-level `if ( c == '(' )`
                pat = ["if", "(", "c", "==", "'('", ")"]
                j, depth = i, 0
                while j < len(toks):
                    if depth == 0 and toks[j:j + 6] == pat:
                        break
                    if toks[j] == "{":
                        depth += 1
                    elif toks[j] == "}":
                        depth -= 1
                        if depth < 0:
                            raise TranslatorError("scanner loop: parenthesis counting `if (c == '(')` not found")
                    j += 1
                else:
                    raise TranslatorError("scanner loop: parenthesis counting `if (c == '(')` not found")
                holes[name] = toks[i:j]
                i = j
            else:  # expression up to the matching ')'
                j, depth = i, 0
                while j < len(toks):
                    if toks[j] == "(":
                        depth += 1
                    elif toks[j] == ")":
                        if depth == 0:
                            break
                        depth -= 1
                    j += 1
                holes[name] = toks[i:j]
                i = j
            k += 1
            continue
        if i >= len(toks) or toks[i] != s:
            ctx_src = " ".join(toks[max(0, i - 8):i + 8])
            ctx_sk = " ".join(sk[max(0, k - 8):k + 8])
            raise TranslatorError("interpPipe no longer has the modelled shape: expected token %r, found %r\n  source:   ... %s ...\n  skeleton: ... %s ..."
                                  % (s, toks[i] if i < len(toks) else "<end>", ctx_src, ctx_sk))
        i += 1
        k += 1
    if i != len(toks):
        raise TranslatorError("interpPipe has trailing tokens the model does not know: %s" % " ".join(toks[i:i + 12]))
    return holes


# ------------------------------------------------------------------------------------------------
# the statement language of the flag update
# ------------------------------------------------------------------------------------------------

class P:
    def __init__(self, toks, flags):
        self.t, self.i, self.flags = toks, 0, flags

    def peek(self, k=0):
        return self.t[self.i + k] if self.i + k < len(self.t) else None

    def eat(self, s=None):
        x = self.peek()
        if x is None or (s is not None and x != s):
            raise TranslatorError("flag logic: expected %r, found %r (token %d of: %s)" % (s, x, self.i, " ".join(self.t)))
        self.i += 1
        return x

    # statements -> ('if', cond, then, els) | ('set', var, expr) | ('continue',)
    def stmts_until_end(self):
        out = []
        while self.peek() is not None:
            out += self.stmt()
        return out

    def block(self):
        if self.peek() == "{":
            self.eat("{")
            out = []
            while self.peek() != "}":
                out += self.stmt()
            self.eat("}")
            return out
        return self.stmt()

    def stmt(self):
        x = self.peek()
        if x == "if":
            self.eat("if")
            self.eat("(")
            c = self.expr()
            self.eat(")")
            th = self.block()
            el = []
            if self.peek() == "else":
                self.eat("else")
                el = self.block()
            return [("if", c, th, el)]
        if x == "continue":
            self.eat()
            self.eat(";")
            return [("continue",)]
        if x == "assert":
            self.eat()
            self.eat("(")
            depth = 0
            while True:
                y = self.eat()
                if y == "(":
                    depth += 1
                elif y == ")":
                    if depth == 0:
                        break
                    depth -= 1
            self.eat(";")
            return []
        if x == "{":
            return self.block()
        if x == ";":
            self.eat()
            return []
        if x in self.flags and self.peek(1) == "=":
            self.eat()
            self.eat("=")
            e = self.expr()
            self.eat(";")
            return [("set", x, e)]
        raise TranslatorError("flag logic: statement not understood at %r (only if/else, flag assignment, continue, assert are modelled)" % " ".join(self.t[self.i:self.i + 8]))

    # expressions -> Gallina text of type bool
    def expr(self):
        a = self.conj()
        while self.peek() == "||":
            self.eat()
            b = self.conj()
            a = "(%s || %s)" % (a, b)
        return a

    def conj(self):
        a = self.neg()
        while self.peek() == "&&":
            self.eat()
            b = self.neg()
            a = "(%s && %s)" % (a, b)
        return a

    def neg(self):
        if self.peek() == "!":
            self.eat()
            return "(negb %s)" % self.neg()
        return self.rel()

    def rel(self):
        a = self.atom()
        if self.peek() in ("==", "!="):
            op = self.eat()
            b = self.atom()
            ka, kb = a[0], b[0]
            if {ka, kb} == {"chr"} or {ka, kb} == {"chr", "c"} or {ka, kb} == {"c"}:
                r = "(Ascii.eqb %s %s)" % (a[1], b[1])
            elif ka == "bool" and kb == "bool":
                r = "(Bool.eqb %s %s)" % (a[1], b[1])
            else:
                raise TranslatorError("flag logic: comparison of %s with %s not modelled" % (a, b))
            return r if op == "==" else "(negb %s)" % r
        if a[0] != "bool":
            raise TranslatorError("flag logic: %s used as a condition" % (a,))
        return a[1]

    def atom(self):
        x = self.eat()
        if x == "(":
            e = self.expr()
            self.eat(")")
            return ("bool", e)
        if x in ("true", "false"):
            return ("bool", x)
        if x == "c":
            return ("c", "c")
        if x in self.flags:
            return ("bool", x)
        if x.startswith("'"):
            return ("chr", char_lit(x))
        raise TranslatorError("flag logic: unknown operand %r" % x)


ESC = {"n": 10, "t": 9, "r": 13, "0": 0, "\\": 92, "'": 39, '"': 34, "a": 7, "b": 8, "f": 12, "v": 11}


def char_lit(tok):
    body = tok[1:-1]
    if body.startswith("\\"):
        if body[1] not in ESC:
            raise TranslatorError("character literal %s not understood" % tok)
        code = ESC[body[1]]
    else:
        code = ord(body)
    if code > 255:
        raise TranslatorError("character literal %s out of range" % tok)
    return '"%03d"%%char' % code


def has_continue(stmts):
    for s in stmts:
        if s[0] == "continue":
            return True
        if s[0] == "if" and (has_continue(s[2]) or has_continue(s[3])):
            return True
    return False


def assigned(stmts):
    out = []
    for s in stmts:
        if s[0] == "set" and s[1] not in out:
            out.append(s[1])
        elif s[0] == "if":
            for v in assigned(s[2]) + assigned(s[3]):
                if v not in out:
                    out.append(v)
    return out


def tuple_of(vs):
    return vs[0] if len(vs) == 1 else "(" + ", ".join(vs) + ")"


def pat_of(vs):
    return vs[0] if len(vs) == 1 else "'(" + ", ".join(vs) + ")"


def gen_block(stmts, vs, ind):
    """statements without continue -> expression computing the tuple vs"""
    pad = "  " * ind
    if not stmts:
        return tuple_of(vs)
    s, rest = stmts[0], stmts[1:]
    if s[0] == "set":
        return "let %s := %s in\n%s%s" % (s[1], s[2], pad, gen_block(rest, vs, ind))
    a = assigned([s])
    if not a:
        return gen_block(rest, vs, ind)
    return "let %s :=\n%s  (if %s\n%s   then %s\n%s   else %s) in\n%s%s" % (
        pat_of(a), pad, s[1], pad, gen_block(s[2], a, ind + 2), pad, gen_block(s[3], a, ind + 2), pad, gen_block(rest, vs, ind))


def gen_stmts(stmts, result, ind):
    """statement list -> expression of type flags * bool; result(cont) gives the final pair"""
    pad = "  " * ind
    if not stmts:
        return result("false")
    s, rest = stmts[0], stmts[1:]
    if s[0] == "continue":
        return result("true")
    if s[0] == "set":
        return "let %s := %s in\n%s%s" % (s[1], s[2], pad, gen_stmts(rest, result, ind))
    if has_continue([s]):
        return "if %s\n%sthen %s\n%selse %s" % (s[1], pad, gen_stmts(s[2] + rest, result, ind + 1), pad, gen_stmts(s[3] + rest, result, ind + 1))
    a = assigned([s])
    if not a:
        return gen_stmts(rest, result, ind)
    return "let %s :=\n%s  (if %s\n%s   then %s\n%s   else %s) in\n%s%s" % (
        pat_of(a), pad, s[1], pad, gen_block(s[2], a, ind + 2), pad, gen_block(s[3], a, ind + 2), pad, gen_stmts(rest, result, ind))


def int_cond(toks):
    """`par == 0`, `par < 0`, ... -> Gallina bool over par : Z"""
    if len(toks) == 3 and toks[0] == "par" and re.fullmatch(r"[0-9]+", toks[2]):
        n, op = toks[2], toks[1]
    elif len(toks) == 4 and toks[0] == "par" and toks[2] == "-" and re.fullmatch(r"[0-9]+", toks[3]):
        n, op = "(-%s)" % toks[3], toks[1]
    else:
        raise TranslatorError("condition on par not modelled: %s" % " ".join(toks))
    m = {"==": "(par =? %s)", "!=": "(negb (par =? %s))", "<": "(par <? %s)", "<=": "(par <=? %s)",
         ">": "(%s <? par)", ">=": "(%s <=? par)"}
    if op not in m:
        raise TranslatorError("condition on par not modelled: %s" % " ".join(toks))
    return m[op] % n


def translate(repo):
    path = os.path.join(repo, "src", "api", "Interpret.cc")
    src = open(path, errors="replace").read()
    ftxt, line = function_text(src, "int Interpret::interpPipe()")
    toks = tokenize(ftxt)
    holes = match_skeleton(toks)
    decls = holes["BOOLDECLS"]
    names = [d[0] for d in decls]
    for n, v in decls:
        if v != "false":
            raise TranslatorError("flag %s is not initialised to false" % n)
    for n in FLAG_FIELDS:
        if n not in names:
            raise TranslatorError("flag %s is no longer declared" % n)
    extra = [n for n in names if n not in FLAG_FIELDS]
    if len(extra) > 1:
        raise TranslatorError("more than one additional flag (%s): the model has one spare field" % ", ".join(extra))
    field = dict(FLAG_FIELDS)
    if extra:
        field[extra[0]] = "fE"
    extra_name = extra[0] if extra else "spareFlag"
    order = ["inComment", "inQuotedSymbol", "inString", extra_name]
    stmts = P(holes["FLAGS"], set(names)).stmts_until_end()

    def result(cont):
        return "(mkFlags %s, %s)" % (" ".join(order), cont)
    body = gen_stmts(stmts, result, 1)
    init = holes["INIT_BUFSZ"][0]
    if not re.fullmatch(r"[0-9]+", init) or int(init) < 2:
        raise TranslatorError("initial buffer size %r not a literal >= 2" % init)
    out = []
    out.append("(* GENERATED by translate/pipe_flags.py from src/api/Interpret.cc, Interpret::interpPipe (line %d).\n"
               "   Do not edit: regenerated on every check; the theorems of Pipe/*.v are re-proved over it. *)" % line)
    out.append("From Coq Require Import List Ascii Bool ZArith.")
    out.append("From OsmtV.Pipe Require Import PipeBase.")
    out.append("Local Open Scope Z_scope.\nLocal Open Scope bool_scope.\n")
    out.append("(* int buf_sz = %s; *)\nDefinition gen_init_buf_sz : Z := %s.\n" % (init, init))
    out.append("(* flags declared: %s *)\nDefinition gen_has_string_escape : bool := %s.\n" % (", ".join(names), "true" if extra else "false"))
    out.append("(* if (%s) { ...emit frame... } *)\nDefinition gen_emit_cond (par : Z) : bool := %s.\n" % (" ".join(holes["EMIT"]), int_cond(holes["EMIT"])))
    out.append("(* if (%s) { ...unbalanced... } *)\nDefinition gen_unbal_cond (par : Z) : bool := %s.\n" % (" ".join(holes["UNBAL"]), int_cond(holes["UNBAL"])))
    out.append("(* the flag update for one character; the boolean says `continue` (the character takes no part in\n"
               "   parenthesis counting) *)")
    out.append("Definition gen_flag_step (f : flags) (c : ascii) : flags * bool :=")
    for n in order:
        out.append("  let %s := %s f in" % (n, field.get(n, "fE")))
    out.append("  " + body + ".")
    return "\n".join(out) + "\n"


def regenerate(repo="/repo", out=None, write=True):
    """Returns (changed, text). Raises TranslatorError when the code is no longer recognised."""
    out = out or os.path.join(VERIF, "coq", "Pipe", "Gen_PipeFlags.v")
    txt = translate(repo)
    old = open(out).read() if os.path.exists(out) else None
    if old != txt and write:
        with open(out, "w") as f:
            f.write(txt)
    return old != txt, txt


if __name__ == "__main__":
    repo, out, write = "/repo", None, True
    a = sys.argv[1:]
    while a:
        x = a.pop(0)
        if x == "--repo":
            repo = a.pop(0)
        elif x == "--out":
            out = a.pop(0)
        elif x == "--check":
            write = False
    try:
        ch, txt = regenerate(repo, out, write)
        print("Gen_PipeFlags.v %s" % ("changed" if ch else "unchanged"))
    except TranslatorError as e:
        print("BROKEN TIE: " + str(e))
        sys.exit(3)
