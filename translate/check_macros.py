#!/usr/bin/env python3
"""Regenerate coq/Rat/Gen_CheckMacros.v from the text of src/common/numbers/FastRational.h.

The overflow-check macros (CHECK_WORD, CHECK_UWORD with CHECK_POSITIVE, CHECK_SUM_OVERFLOWS_LWORD,
CHECK_SUB_OVERFLOWS_LWORD, COMPUTE_WORD) and the integer typedefs / limit constants are parsed from
the header and emitted as ASTs of the deep embedding coq/Rat/CMacro.v.  Rat/CheckMacrosProofs.v proves
the ASTs equivalent to the range predicates the model (FRModel.v) uses; an edit of a macro therefore
either is not recognised here (exit 2) or breaks that proof.

usage: check_macros.py [--repo DIR] [--out FILE] [--check]
  default: write coq/Rat/Gen_CheckMacros.v (only when its content changes)
  --check: regenerate to a temporary copy, and (if it differs from the file in the tree) compile the
           proofs against the regenerated text; exit 0 iff the proofs hold for the current header
"""
import os
import re
import shutil
import subprocess
import sys
import tempfile

VERIF = os.path.dirname(os.path.dirname(os.path.abspath(__file__)))
HEADER = "src/common/numbers/FastRational.h"
OUT = os.path.join(VERIF, "coq", "Rat", "Gen_CheckMacros.v")

LIMITS = {"INT_MIN": -2**31, "INT_MAX": 2**31 - 1, "UINT_MAX": 2**32 - 1, "LONG_MIN": -2**63, "LONG_MAX": 2**63 - 1,
          "ULONG_MAX": 2**64 - 1}
TYPEDEFS = {"word": "int32_t", "uword": "uint32_t", "lword": "int64_t", "ulword": "uint64_t"}
CTY = {"lword": "TL", "ulword": "TU"}


class Unrecognised(Exception):
    pass


def read_macros(text):
    """name -> (params, body text) for function-like macros; name -> text for object-like ones"""
    text = text.replace("\\\n", " ")
    fun, obj = {}, {}
    for m in re.finditer(r"^[ \t]*#[ \t]*define[ \t]+(\w+)\(([^)]*)\)[ \t]*(.*)$", text, re.M):
        fun[m.group(1)] = ([p.strip() for p in m.group(2).split(",") if p.strip()], m.group(3).strip())
    for m in re.finditer(r"^[ \t]*#[ \t]*define[ \t]+(\w+)[ \t]+([^(\n][^\n]*)$", text, re.M):
        if m.group(1) not in fun:
            obj[m.group(1)] = m.group(2).strip()
    return fun, obj


TOKEN = re.compile(r"\s*(?:(\d+)|([A-Za-z_]\w*)|(<=|>=|&&|\|\||[-+<>=(){};,]))")


def tokenize(s):
    out, i = [], 0
    s = s.rstrip()
    while i < len(s):
        m = TOKEN.match(s, i)
        if not m:
            raise Unrecognised("cannot tokenise macro text at: %r" % s[i:i + 30])
        if m.group(1) is not None:
            out.append(("num", int(m.group(1))))
        elif m.group(2) is not None:
            out.append(("id", m.group(2)))
        else:
            out.append(("op", m.group(3)))
        i = m.end()
    return out


class Parser:
    def __init__(self, toks, consts, macros, subst=None):
        self.t, self.i, self.consts, self.macros = toks, 0, consts, macros
        self.subst = subst or {}

    def peek(self, k=0):
        return self.t[self.i + k] if self.i + k < len(self.t) else ("eof", None)

    def eat(self, kind, val=None):
        tk = self.peek()
        if tk[0] != kind or (val is not None and tk[1] != val):
            raise Unrecognised("expected %s %s, found %s" % (kind, val, tk))
        self.i += 1
        return tk[1]

    def at(self, kind, val=None, k=0):
        tk = self.peek(k)
        return tk[0] == kind and (val is None or tk[1] == val)

    # expressions ---------------------------------------------------------------------------
    def expr(self):
        return self.p_or()

    def p_or(self):
        a = self.p_and()
        while self.at("op", "||") or self.at("id", "or"):
            self.i += 1
            a = "(EOr %s %s)" % (a, self.p_and())
        return a

    def p_and(self):
        a = self.p_cmp()
        while self.at("op", "&&") or self.at("id", "and"):
            self.i += 1
            a = "(EAnd %s %s)" % (a, self.p_cmp())
        return a

    def p_cmp(self):
        a = self.p_add()
        ops = {"<": "ELt", ">": "EGt", "<=": "ELe", ">=": "EGe"}
        if self.peek()[0] == "op" and self.peek()[1] in ops:
            c = ops[self.eat("op")]
            a = "(%s %s %s)" % (c, a, self.p_add())
        return a

    def p_add(self):
        a = self.p_prim()
        while self.at("op", "+") or self.at("op", "-"):
            c = "EAdd" if self.eat("op") == "+" else "ESub"
            a = "(%s %s %s)" % (c, a, self.p_prim())
        return a

    def p_prim(self):
        tk = self.peek()
        if tk[0] == "num":
            self.i += 1
            return "(EConst %d)" % tk[1]
        if tk[0] == "id":
            self.i += 1
            if tk[1] in self.consts:
                return "(EConst (%d))" % self.consts[tk[1]]
            return '(EVar "%s")' % self.subst.get(tk[1], tk[1])
        if self.at("op", "("):
            self.i += 1
            e = self.expr()
            self.eat("op", ")")
            return e
        raise Unrecognised("unexpected token %s in expression" % (tk,))

    # statements ----------------------------------------------------------------------------
    def stmts(self, stop=None):
        out = []
        while not self.at("eof") and not (stop and self.at(*stop)):
            out += self.stmt()
        return out

    def stmt(self):
        if self.at("id", "do"):
            self.i += 1
            self.eat("op", "{")
            body = self.stmts(stop=("op", "}"))
            self.eat("op", "}")
            self.eat("id", "while")
            self.eat("op", "(")
            if self.eat("num") != 0:
                raise Unrecognised("do { } while (c) with c != 0")
            self.eat("op", ")")
            if self.at("op", ";"):
                self.i += 1
            return body
        if self.at("id", "if"):
            self.i += 1
            self.eat("op", "(")
            c = self.expr()
            self.eat("op", ")")
            if self.at("op", "{"):
                self.i += 1
                self.eat("id", "goto")
                self.eat("id", "overflow")
                self.eat("op", ";")
                self.eat("op", "}")
                return ["SIfGoto %s" % c]
            if self.at("id", "abort"):
                self.i += 1
                self.eat("op", "(")
                self.eat("op", ")")
                if self.at("op", ";"):
                    self.i += 1
                return ["SIfAbort %s" % c]
            if self.at("id", "goto"):
                self.i += 1
                self.eat("id", "overflow")
                self.eat("op", ";")
                return ["SIfGoto %s" % c]
            raise Unrecognised("if (...) followed by %s" % (self.peek(),))
        if self.at("id") and self.peek()[1] in CTY and self.at("id", None, 1) and self.at("op", "=", 2):
            t = CTY[self.eat("id")]
            x = self.eat("id")
            self.eat("op", "=")
            e = self.expr()
            self.eat("op", ";")
            return ['SDecl %s "%s" %s' % (t, x, e)]
        if self.at("id") and self.peek()[1] in self.macros and self.at("op", "(", 1):
            name = self.eat("id")
            params, body = self.macros[name]
            self.eat("op", "(")
            args = []
            for k in range(len(params)):
                if k:
                    self.eat("op", ",")
                args.append(self.eat("id"))
            self.eat("op", ")")
            if self.at("op", ";"):
                self.i += 1
            sub = dict(self.subst)
            # arguments are identifiers (macro parameters of the caller): rename
            inner = Parser(tokenize(body), self.consts, self.macros, {p: self.subst.get(a, a) for p, a in zip(params, args)})
            res = inner.stmts()
            return res
        if self.at("id") and self.at("op", "=", 1):
            x = self.eat("id")
            self.eat("op", "=")
            e = self.expr()
            if self.at("op", ";"):
                self.i += 1
            return ['SAssign "%s" %s' % (self.subst.get(x, x), e)]
        raise Unrecognised("statement starting with %s" % (self.peek(),))


def generate(repo):
    path = os.path.join(repo, HEADER)
    text = open(path).read()
    # typedefs and limits
    for name, base in TYPEDEFS.items():
        if not re.search(r"typedef\s+%s\s+%s\s*;" % (base, name), text):
            raise Unrecognised("typedef %s %s; not found" % (base, name))
    fun, obj = read_macros(text)
    consts = {}
    for k in ("WORD_MIN", "WORD_MAX", "UWORD_MAX", "LWORD_MIN", "LWORD_MAX"):
        if k not in obj or obj[k] not in LIMITS:
            raise Unrecognised("#define %s <limit> not found (got %r)" % (k, obj.get(k)))
        consts[k] = LIMITS[obj[k]]
    need = ["CHECK_WORD", "CHECK_UWORD", "CHECK_POSITIVE", "CHECK_SUM_OVERFLOWS_LWORD", "CHECK_SUB_OVERFLOWS_LWORD", "COMPUTE_WORD"]
    for n in need:
        if n not in fun:
            raise Unrecognised("macro %s not found" % n)
    if [t for t in tokenize(fun["COMPUTE_WORD"][1])] != [t for t in tokenize("word var; CHECK_WORD(var, value)")] or \
            fun["COMPUTE_WORD"][0] != ["var", "value"]:
        raise Unrecognised("COMPUTE_WORD is not `word var; CHECK_WORD(var, value)`: %r" % (fun["COMPUTE_WORD"],))
    out = ["(* GENERATED by translate/check_macros.py from %s — do not edit.  The macro bodies as ASTs of" % HEADER,
           "   Rat/CMacro.v; proofs about them: Rat/CheckMacrosProofs.v. *)",
           "From Coq Require Import ZArith String List.",
           "From OsmtV.Rat Require Import CMacro.",
           "Import ListNotations.", "Local Open Scope Z_scope.", "Local Open Scope string_scope.", ""]
    for k in ("WORD_MIN", "WORD_MAX", "UWORD_MAX", "LWORD_MIN", "LWORD_MAX"):
        out.append("Definition GEN_%s : Z := %d.   (* #define %s %s *)" % (k, consts[k], k, obj[k]))
    out.append("")
    for n in ["CHECK_WORD", "CHECK_UWORD", "CHECK_SUM_OVERFLOWS_LWORD", "CHECK_SUB_OVERFLOWS_LWORD"]:
        params, body = fun[n]
        p = Parser(tokenize(body), consts, fun)
        ss = p.stmts()
        if not p.at("eof"):
            raise Unrecognised("trailing tokens in %s" % n)
        if not ss or not ss[-1].startswith("SAssign"):
            raise Unrecognised("%s does not end with the assignment of its output parameter" % n)
        out.append("(* #define %s(%s) %s *)" % (n, ", ".join(params), re.sub(r"\s+", " ", body).replace("*)", "* )")))
        out.append("Definition %s_params : list string := [%s]." % (n, "; ".join('"%s"' % x for x in params)))
        out.append("Definition %s_body : list cstmt :=\n  [ %s ]." % (n, ";\n    ".join(ss)))
        out.append("")
    return "\n".join(out)


def main():
    a = sys.argv[1:]
    repo = os.environ.get("VERIF_REPO", "/repo")
    out = OUT
    check = False
    while a:
        x = a.pop(0)
        if x == "--repo":
            repo = a.pop(0)
        elif x == "--out":
            out = a.pop(0)
        elif x == "--check":
            check = True
    try:
        txt = generate(repo)
    except Unrecognised as e:
        print("check_macros: the header is not in the recognised form: %s" % e)
        return 2
    if not check:
        old = open(out).read() if os.path.exists(out) else None
        if old != txt:
            with open(out, "w") as f:
                f.write(txt)
            print("check_macros: wrote %s" % out)
        else:
            print("check_macros: %s up to date" % out)
        return 0
    cur = open(OUT).read() if os.path.exists(OUT) else None
    if cur == txt:
        print("check_macros: generated text identical to coq/Rat/Gen_CheckMacros.v (proofs compiled with the development)")
        return 0
    # compile the proofs against the regenerated text, in a scratch directory under another logical name
    d = tempfile.mkdtemp(prefix="c15macros_", dir=os.path.join(VERIF, "build"))
    try:
        open(os.path.join(d, "Gen_CheckMacros.v"), "w").write(txt)
        prf = open(os.path.join(VERIF, "coq", "Rat", "CheckMacrosProofs.v")).read()
        prf = prf.replace("From OsmtV.Rat Require Import Gen_CheckMacros.", "From C15Tmp Require Import Gen_CheckMacros.")
        open(os.path.join(d, "CheckMacrosProofs.v"), "w").write(prf)
        for f in ("Gen_CheckMacros.v", "CheckMacrosProofs.v"):
            p = subprocess.run(["timeout", "300", "coqc", "-Q", os.path.join(VERIF, "coq"), "OsmtV", "-Q", d, "C15Tmp", "-w", "-all", f],
                               cwd=d, stdout=subprocess.PIPE, stderr=subprocess.STDOUT, text=True)
            if p.returncode != 0:
                print("check_macros: the macros of the header changed and the equivalence proof no longer holds (%s):\n%s"
                      % (f, p.stdout[-1500:]))
                return 1
        print("check_macros: header macros changed textually; equivalence proofs still hold")
        return 0
    finally:
        shutil.rmtree(d, ignore_errors=True)


if __name__ == "__main__":
    sys.exit(main())
