#!/usr/bin/env python3
"""Regenerate coq/Print/Gen_Tokens.v from the working tree (C17).

Sources read (under $VERIF_REPO, default /repo):
  src/api/smt2tokens.h                 tokens::tokenNames          -> gen_tokenNames   (what Logic::isReservedWord consults)
  src/logics/Logic.cc                  Logic::isReservedWord       -> must be the membership test in tokens::tokenNames
                                       Logic::hasQuotableChars     -> gen_simple_chars (the find_first_not_of set),
                                                                      gen_already_quoted_shortcut
                                       Logic::protectName          -> gen_protect_{interp,quotable,digit,reserved}
                                       Logic::disambiguateName     -> gen_disamb_key_is_view_data (the lookup uses the
                                                                      string_view's data(): for |x| the key is  x|  )
                                       Logic::s_abstract_value_prefix -> gen_abstract_prefix
  src/parsers/smt2new/smt2newlexer.ll  the quoted-literal rules    -> gen_lexer_reserved  (words opensmt's own lexer never
                                                                      returns as TK_SYM)
                                       TK_SYM / TK_NUM / TK_DEC rules -> gen_lexer_sym_first, gen_lexer_sym_rest,
                                                                      gen_lexer_neg_numerals
  src/models/Model.cc                  getFormalArgBaseNameForSymbol, formalArgDefaultPrefix -> gen_formal_prefix,
                                                                      gen_formal_collision_rule
  src/api/Interpret.cc                 NameClashResolver::getSafePrefix -> gen_safe_prefix_x, gen_safe_prefix_other;
                                       getAssignment (seekp)       -> gen_assignment_seekp_unguarded
                                       printAstTermNode            -> gen_echo_raw_names

A fragment that is no longer recognised raises TranslateError (exit 3): the tie is broken and the check says so.
The file is written only when its content changes.
"""
import os
import re
import sys

HERE = os.path.dirname(os.path.abspath(__file__))
VERIF = os.path.dirname(HERE)
REPO = os.environ.get("VERIF_REPO", "/repo")
OUT = os.path.join(VERIF, "coq", "Print", "Gen_Tokens.v")


class TranslateError(Exception):
    pass


def read(rel):
    p = os.path.join(REPO, rel)
    if not os.path.exists(p):
        raise TranslateError("missing " + p)
    return open(p, errors="replace").read()


def strip_cpp_comments(t):
    t = re.sub(r"/\*.*?\*/", " ", t, flags=re.S)
    out = []
    for line in t.split("\n"):
        # remove // comments outside string literals
        i, n, inq = 0, len(line), False
        while i < n:
            c = line[i]
            if inq:
                if c == "\\":
                    i += 2
                    continue
                if c == '"':
                    inq = False
            elif c == '"':
                inq = True
            elif c == "'" and i + 2 < n and line[i + 2] == "'":
                i += 3
                continue
            elif c == "'" and i + 3 < n and line[i + 1] == "\\" and line[i + 3] == "'":
                i += 4
                continue
            elif line.startswith("//", i):
                line = line[:i]
                break
            i += 1
        out.append(line)
    return "\n".join(out)


def function_body(text, header_rx, what):
    m = re.search(header_rx, text)
    if not m:
        raise TranslateError(what + ": header not found")
    i = text.index("{", m.end() - 1)
    depth, j = 0, i
    while j < len(text):
        ch = text[j]
        if ch == '"':
            j += 1
            while text[j] != '"':
                j += 2 if text[j] == "\\" else 1
        elif ch == "'":
            j += 1
            while text[j] != "'":
                j += 2 if text[j] == "\\" else 1
        elif ch == "{":
            depth += 1
        elif ch == "}":
            depth -= 1
            if depth == 0:
                return text[i + 1:j]
        j += 1
    raise TranslateError(what + ": unbalanced braces")


def norm(s):
    return re.sub(r"\s+", " ", s).strip()


def c_string_literals(s):
    """the concatenation of the adjacent C string literals in s (escapes \\\\ \\" \\n \\t only)"""
    out = []
    for m in re.finditer(r'"((?:[^"\\]|\\.)*)"', s):
        lit = m.group(1)
        k = 0
        while k < len(lit):
            if lit[k] == "\\":
                e = lit[k + 1]
                out.append({"n": "\n", "t": "\t", "\\": "\\", '"': '"', "'": "'", "0": "\0"}.get(e) or _bad_escape(e))
                k += 2
            else:
                out.append(lit[k])
                k += 1
    return "".join(out)


def _bad_escape(e):
    raise TranslateError("unsupported escape \\%s in a string literal" % e)


# ---------------------------------------------------------------------------------------------
def token_names():
    t = strip_cpp_comments(read("src/api/smt2tokens.h"))
    m = re.search(r"inline\s+const\s+std::unordered_set<std::string>\s+tokenNames\s*=\s*\{(.*?)\};", t, re.S)
    if not m:
        raise TranslateError("smt2tokens.h: tokens::tokenNames (unordered_set<std::string>) not found")
    body = m.group(1)
    names = re.findall(r'"((?:[^"\\]|\\.)*)"', body)
    rest = re.sub(r'"((?:[^"\\]|\\.)*)"', "", body)
    if rest.replace(",", "").strip():
        raise TranslateError("smt2tokens.h: tokenNames initialiser has something else than string literals: %r" % rest.strip()[:60])
    if not names:
        raise TranslateError("smt2tokens.h: tokenNames is empty")
    for n in names:
        if "\\" in n:
            raise TranslateError("smt2tokens.h: escape in token name " + n)
    return names


def logic_cc():
    t = strip_cpp_comments(read("src/logics/Logic.cc"))
    res = {}
    # isReservedWord
    b = norm(function_body(t, r"bool\s+Logic::isReservedWord\s*\(\s*std::string\s+const\s*&\s*name\s*\)\s*(const\s*)?\{", "Logic::isReservedWord"))
    if b != "return tokens::tokenNames.find(name) != tokens::tokenNames.end();":
        raise TranslateError("Logic::isReservedWord is no longer the membership test in tokens::tokenNames: " + b[:120])
    # hasQuotableChars
    b = function_body(t, r"bool\s+Logic::hasQuotableChars\s*\(\s*std::string\s+const\s*&\s*name\s*\)\s*(const\s*)?\{", "Logic::hasQuotableChars")
    nb = norm(b)
    m = re.match(r"^(if \(name\.front\(\) == '\|' and name\.back\(\) == '\|'\) return false; )?return name\.find_first_not_of\((.*)\) != std::string::npos;$", nb)
    if not m:
        raise TranslateError("Logic::hasQuotableChars not recognised: " + nb[:160])
    res["shortcut"] = bool(m.group(1))
    res["chars"] = c_string_literals(m.group(2))
    if re.sub(r'"((?:[^"\\]|\\.)*)"', "", m.group(2)).strip():
        raise TranslateError("Logic::hasQuotableChars: the character set is not a plain literal")
    # protectName
    b = norm(function_body(t, r"std::string\s+Logic::protectName\s*\(\s*std::string\s+const\s*&\s*name\s*,\s*bool\s+isInterpreted\s*\)\s*(const\s*)?\{", "Logic::protectName"))
    b = re.sub(r"^assert\(not name\.empty\(\)\); ", "", b)
    m = re.match(r"^if \((not isInterpreted and )?\(?(.*?)\)?\) \{ return '\|' \+ name \+ '\|'; \} return name;$", b)
    if not m:
        raise TranslateError("Logic::protectName not recognised: " + b[:200])
    atoms = [a.strip() for a in m.group(2).split(" or ")]
    known = {"hasQuotableChars(name)": "quotable", "std::isdigit(name[0])": "digit", "isReservedWord(name)": "reserved",
             "name.empty()": "empty", "(name.size() > 1 and name[0] == '-' and std::isdigit(name[1]))": "minus_digit"}
    flags = dict(interp=bool(m.group(1)), quotable=False, digit=False, reserved=False, empty=False, minus_digit=False)
    for a in atoms:
        if a not in known:
            raise TranslateError("Logic::protectName: unknown condition %r" % a)
        flags[known[a]] = True
    res["protect"] = flags
    # disambiguateName
    b = norm(function_body(t, r"std::string\s+Logic::disambiguateName\s*\(", "Logic::disambiguateName"))
    expect_head = ("assert(not protectedName.empty()); if (not isNullary or isInterpreted) { return protectedName; } "
                   "auto isQuoted = [](std::string const & s) { return s.size() > 2 and *s.begin() == '|' and *(s.end() - 1) == '|'; }; "
                   "auto name = isQuoted(protectedName) ? std::string_view(protectedName.data() + 1, protectedName.size() - 2) : std::string_view(protectedName); "
                   "if (not isKnownToUser(name) or isAmbiguousUninterpretedNullarySymbolName(name)) { "
                   "return \"(as \" + std::string(protectedName) + \" \" + sortToString(sortRef) + ')'; } else { return protectedName; }")
    if b != expect_head:
        raise TranslateError("Logic::disambiguateName not recognised: " + b[:300])
    # how the ambiguity lookup turns the view into a key (PtStore.cc)
    p = strip_cpp_comments(read("src/pterms/PtStore.cc"))
    pb = norm(function_body(p, r"bool\s+PtStore::isAmbiguousNullarySymbolName\s*\(\s*std::string_view\s+name\s*\)\s*const\s*\{", "PtStore::isAmbiguousNullarySymbolName"))
    if "symstore.getRefOrNull(name.data())" in pb and "if (symstore[sr].nargs() == 0) { matches++; }" in pb:
        res["view_data"] = True      # C string from the view's start: runs to the NUL of the protected name
    elif re.search(r"getRefOrNull\(std::string\(name\)(\.c_str\(\)|\.data\(\))?\)", pb) or "getRefOrNull(name)" in pb \
            or ("std::string const key(name);" in pb and "symstore.getRefOrNull(key.c_str())" in pb
                and "if (symstore[sr].nargs() == 0 and not symstore[sr].isInterpreted()) { matches++; }" in pb):
        res["view_data"] = False
    else:
        raise TranslateError("PtStore::isAmbiguousNullarySymbolName: lookup key not recognised: " + pb[:200])
    m = re.search(r'char\s+const\s*\*\s*Logic::s_abstract_value_prefix\s*=\s*"([^"\\]*)"\s*;', t)
    if not m or len(m.group(1)) != 1:
        raise TranslateError("Logic::s_abstract_value_prefix not found (one character expected)")
    res["absprefix"] = m.group(1)
    h = strip_cpp_comments(read("src/logics/Logic.h"))
    if not re.search(r"bool\s+isKnownToUser\s*\(\s*std::string_view\s+name\s*\)\s*const\s*\{\s*return\s+name\[0\]\s*!=\s*s_abstract_value_prefix\[0\];\s*\}", h):
        raise TranslateError("Logic::isKnownToUser(std::string_view) not recognised")
    # symToString / termToSMT2StringImpl shape
    b = norm(function_body(t, r"std::string\s+Logic::symToString\s*\(\s*SymRef\s+sr\s*\)\s*const\s*\{", "Logic::symToString"))
    if b != ("Symbol const & symbol = getSym(sr); bool isInterpreted = symbol.isInterpreted(); "
             "std::string protectedName = protectName(getSymName(sr), isInterpreted); "
             "return disambiguateName(std::move(protectedName), getSortRef(sr), symbol.nargs() == 0, isInterpreted);"):
        raise TranslateError("Logic::symToString not recognised: " + b[:200])
    b = norm(function_body(t, r"std::string\s+Logic::termToSMT2StringImpl\s*\(\s*PTRef\s+tr\s*,\s*bool\s+withRefs\s*\)\s*const\s*\{", "Logic::termToSMT2StringImpl"))
    if b != ("std::stringstream ss; Pterm const & t = getPterm(tr); SymRef sr = t.symb(); std::string name_escaped = symToString(sr); "
             "if (t.size() == 0) { ss << name_escaped; if (withRefs) { ss << \" <\" + std::to_string(tr.x) + \">\"; } return ss.str(); } "
             "else { assert(t.size() > 0); ss << \"(\" << name_escaped; for (auto arg : t) { ss << \" \" << termToSMT2StringImpl(arg, withRefs); } "
             "ss << \")\"; if (withRefs) { ss << \" <\" + std::to_string(tr.x) + \">\"; } } return ss.str();"):
        raise TranslateError("Logic::termToSMT2StringImpl not recognised: " + b[:200])
    return res


def split_rules(src):
    parts = re.split(r"(?m)^%%\s*$", src)
    if len(parts) < 3:
        raise TranslateError("smt2newlexer.ll: rules section not found")
    return parts[1]


def lexer():
    rules = split_rules(read("src/parsers/smt2new/smt2newlexer.ll"))
    reserved, res = [], {}
    sym = num = dec = None
    for line in rules.split("\n"):
        if line.startswith("<") or line.startswith(" ") or not line.strip():
            if line.startswith("<"):
                break          # start-condition blocks: after the INITIAL rules we care about
            continue
        m = re.match(r'^"((?:[^"\\]|\\.)+)"\s+\{(.*)\}\s*$', line)
        if m:
            word, act = m.group(1), m.group(2)
            if word.startswith(":"):
                continue
            if re.search(r"return\s+TK_SYM\b", act):
                raise TranslateError("lexer: literal rule %r returns TK_SYM" % word)
            if not re.search(r"return\s+(TK_[A-Z]+|\*yyget_text\(yyscanner\))\s*;", act):
                raise TranslateError("lexer: literal rule %r: action not recognised" % word)
            reserved.append(word)
            continue
        if "return TK_SYM;" in line:
            if sym is not None:
                raise TranslateError("lexer: two TK_SYM rules")
            sym = line.split(" {", 1)[0].strip()
        elif "return TK_NUM;" in line:
            num = line.split("  {", 1)[0].strip()
        elif "return TK_DEC;" in line:
            dec = line.split("  {", 1)[0].strip()
    if sym is None or num is None or dec is None:
        raise TranslateError("lexer: TK_SYM / TK_NUM / TK_DEC rule not found")
    m = re.match(r"^\[((?:[^\]\\]|\\.)*)\]\[((?:[^\]\\]|\\.)*)\]\*$", sym)
    if not m:
        raise TranslateError("lexer: TK_SYM pattern not of the form [first][rest]*: " + sym)

    def cls(s):
        out, k = [], 0
        while k < len(s):
            if s[k] == "\\":
                out.append(s[k + 1])
                k += 2
            elif k + 2 < len(s) and s[k + 1] == "-" and s[k + 2] != "]":
                a, b = ord(s[k]), ord(s[k + 2])
                if a > b:
                    raise TranslateError("lexer: bad range in " + s)
                out += [chr(x) for x in range(a, b + 1)]
                k += 3
            else:
                out.append(s[k])
                k += 1
        seen, o2 = set(), []
        for c in out:
            if c not in seen:
                seen.add(c)
                o2.append(c)
        return "".join(o2)
    res["sym_first"], res["sym_rest"] = cls(m.group(1)), cls(m.group(2))
    if num == r"0|-?[1-9][0-9]*(\/[1-9][0-9]*)?" and dec == r"-?[0-9]+\.0*[0-9]+":
        res["neg_numerals"] = True
    elif num in (r"0|[1-9][0-9]*", r"[0-9]+") and dec in (r"[0-9]+\.0*[0-9]+", r"[0-9]+\.[0-9]+"):
        res["neg_numerals"] = False
    else:
        raise TranslateError("lexer: TK_NUM / TK_DEC patterns not recognised: %s / %s" % (num, dec))
    res["reserved"] = reserved
    return res


def model_cc():
    t = strip_cpp_comments(read("src/models/Model.cc"))
    m = re.search(r'formalArgDefaultPrefix\s*\(\s*"([A-Za-z]+)"\s*\)', t)
    if not m:
        raise TranslateError("Model.cc: formalArgDefaultPrefix initialiser not found")
    prefix = m.group(1)
    b = norm(function_body(t, r"std::string\s+Model::getFormalArgBaseNameForSymbol\s*\(", "Model::getFormalArgBaseNameForSymbol"))
    expect = ("std::string const & symName(logic.getSymName(sr)); "
              "bool collisionPossible = formalArgDefaultPrefix == symName.substr(0, formalArgDefaultPrefix.size()); "
              "if (collisionPossible) { std::string newPrefix(formalArgDefaultPrefix); newPrefix[0] = (symName[0] + 1) % 26 + 'a'; "
              "assert(newPrefix[0] != symName[0]); return newPrefix; } return formalArgDefaultPrefix;")
    if b == expect:
        rule = "own-name-only"
    else:
        raise TranslateError("Model::getFormalArgBaseNameForSymbol not recognised: " + b[:300])
    b = norm(function_body(t, r"TemplateFunction\s+Model::getDefinition\s*\(\s*SymRef\s+sr\s*\)\s*const\s*\{", "Model::getDefinition"))
    if "return TemplateFunction(symName, formalArgs," in b and "std::string symName = logic.getSymName(sr);" in b:
        default_raw = True
    elif re.search(r"return TemplateFunction\(logic\.protectName\(sr\), formalArgs,", b) or "std::string symName = logic.protectName(sr);" in b:
        default_raw = False
    else:
        raise TranslateError("Model::getDefinition: name of the default definition not recognised")
    # how formal arguments are created (Model::getDefinition, ModelBuilder::addToTheoryFunction)
    mb = norm(strip_cpp_comments(read("src/models/ModelBuilder.cc")))
    old_d = "for (int i = 0; i < (int)logic.getSym(sr).nargs(); i++) { SRef argSort = logic.getSym(sr)[i]; std::stringstream ss; ss << varNameBase << i; formalArgs[i] = logic.mkVar(argSort, ss.str().c_str()); }"
    new_d = ("unsigned num = 0; for (int i = 0; i < (int)logic.getSym(sr).nargs(); i++) { SRef argSort = logic.getSym(sr)[i]; std::string name; "
             "do { name = varNameBase + std::to_string(num++); } while (not isFormalArgNameFree(logic, name, argSort)); formalArgs[i] = logic.mkVar(argSort, name.c_str()); }")
    old_b = "for (PTRef v : vals) { std::stringstream ss; ss << formalArgPrefix << uniqueNum++; formalArgs.push(logic.mkVar(logic.getSortRef(v), ss.str().c_str())); }"
    new_b = ("for (PTRef v : vals) { std::string name; do { name = formalArgPrefix + std::to_string(uniqueNum++); } "
             "while (not Model::isFormalArgNameFree(logic, name, logic.getSortRef(v))); formalArgs.push(logic.mkVar(logic.getSortRef(v), name.c_str())); }")
    free_fn = ("bool Model::isFormalArgNameFree(Logic & logic, std::string const & name, SRef sort) { if (not logic.hasSym(name.c_str())) { return true; } "
               "for (SymRef homonym : logic.symNameToRef(name.c_str())) { Symbol const & symbol = logic.getSym(homonym); "
               "if (symbol.nargs() != 0 or symbol.rsort() != sort) { return false; } } return true; }")
    if old_d in b and old_b in mb:
        unchecked = True
    elif new_d in b and new_b in mb and free_fn in norm(t):
        unchecked = False
    else:
        raise TranslateError("creation of formal arguments (Model::getDefinition / ModelBuilder::addToTheoryFunction) not recognised")
    return dict(prefix=prefix, rule=rule, default_raw=default_raw, unchecked=unchecked)


def interpret_cc():
    t = strip_cpp_comments(read("src/api/Interpret.cc"))
    res = {}
    m = re.search(r"std::string\s+getSafePrefix\s*\(\s*SymRef\s+symref\s*\)\s*\{\s*return\s+logic\.getSymName\(symref\)\[0\]\s*==\s*'(.)'\s*\?\s*\"([^\"]*)\"\s*:\s*\"([^\"]*)\"\s*;\s*\}", t)
    if not m:
        raise TranslateError("Interpret.cc: NameClashResolver::getSafePrefix not recognised")
    res["safe_char"], res["safe_if"], res["safe_else"] = m.group(1), m.group(2), m.group(3)
    b = norm(function_body(t, r"bool\s+Interpret::getAssignment\s*\(\s*\)\s*const\s*\{", "Interpret::getAssignment"))
    loop = ("ss << '('; for (auto const & [name, term] : termNames) { lbool val = solver.getTermValue(term); "
            "ss << '(' << name << ' ' << (val == l_True ? \"true\" : (val == l_False ? \"false\" : \"unknown\")) << ')' << \" \"; } ")
    fixed_loop = ("ss << '('; bool first = true; for (auto const & [name, term] : termNames) { lbool val = solver.getTermValue(term); "
                  "if (not first) { ss << ' '; } first = false; "
                  "ss << '(' << Logic::protectName(name, false) << ' ' << (val == l_True ? \"true\" : (val == l_False ? \"false\" : \"unknown\")) << ')'; } "
                  "ss << ')'; notify_formatted(false, \"%s\", ss.str().c_str());")
    if loop + "ss.seekp(-1, std::ios::cur); ss << ')'; notify_formatted(false, ss.str().c_str());" in b:
        res["assign"] = dict(raw=True, seekp=True, fmt=True)
    elif loop + "if (ss.tellp() > 1) { ss.seekp(-1, std::ios::cur); } ss << ')'; notify_formatted(false, \"%s\", ss.str().c_str());" in b:
        res["assign"] = dict(raw=True, seekp=False, fmt=False)
    elif fixed_loop in b:
        res["assign"] = dict(raw=False, seekp=False, fmt=False)
    else:
        raise TranslateError("Interpret::getAssignment: printing loop not recognised")
    b = norm(function_body(t, r"void\s+printAstTermNode\s*\(\s*ASTNode\s+const\s*&\s*astNode\s*\)\s*\{", "printAstTermNode"))
    if ("} else if (t == QID_T) { ASTNode const * symbolNode = (*(astNode.children->begin())); char const * name = symbolNode->getValue(); std::cout << name; }" in b
            and "const char* name = (**node_iter).getValue(); node_iter++; std::cout << \"(\"; std::cout << name << \" \";" in b
            and "std::cout << \"(!\"; printAstTermNode(named_term);" in b):
        res["echo"] = "raw"
    elif ("} else if (t == QID_T) { printAstQualifiedIdentifier(**(astNode.children->begin())); }" in b
          and "std::cout << \"(\"; printAstQualifiedIdentifier(**node_iter); node_iter++; std::cout << \" \";" in b
          and ("std::cout << \"(! \"; printAstTermNode(named_term);" in b or "std::cout << \"(!\"; printAstTermNode(named_term);" in b)
          and "std::cout << \" \" << printedSymbol(sym.getValue());" in b
          and "std::cout << \"(\" << printedSymbol(vb->getValue()) << \" \";" in b
          and "std::string printedSymbol(char const * name) { return Logic::protectName(name, false); }" in norm(t)):
        res["echo"] = "fixed"
    else:
        raise TranslateError("printAstTermNode not recognised")
    res["bang_glued"] = "std::cout << \"(!\"; printAstTermNode(named_term);" in b
    u = strip_cpp_comments(read("src/unsatcores/UnsatCore.cc"))
    b = norm(function_body(u, r"void\s+NamedUnsatCore::printTerm\s*\(", "NamedUnsatCore::printTerm"))
    if b == "assert(termNames.contains(term)); os << termNames.nameForTerm(term);":
        res["core"] = "raw"
    elif b == "assert(termNames.contains(term)); os << Logic::protectName(termNames.nameForTerm(term), false);":
        res["core"] = "fixed"
    else:
        raise TranslateError("NamedUnsatCore::printTerm not recognised: " + b[:120])
    s = strip_cpp_comments(read("src/sorts/SStore.h"))
    b = norm(function_body(s, r"std::string\s+sortToString\s*\(\s*SRef\s+sr\s*\)\s*const\s*\{", "SStore::sortToString"))
    if not b.startswith("std::string name = getSortSymName(sr); if (sa[sr].getSize() > 0) {"):
        raise TranslateError("SStore::sortToString not recognised: " + b[:200])
    lg = strip_cpp_comments(read("src/logics/Logic.cc"))
    b = norm(function_body(lg, r"std::string\s+Logic::sortToString\s*\(\s*SRef\s+s\s*\)\s*const\s*\{", "Logic::sortToString"))
    if b == "return sort_store.sortToString(s);":
        res["sort"] = "raw"
    elif b.startswith("SSymRef const ssr = sort_store.getSortSym(s); std::string name = isBuiltinSortSym(ssr) ? sort_store.getSortSymName(ssr) : protectName(sort_store.getSortSymName(ssr), false);"):
        res["sort"] = "fixed"
    else:
        raise TranslateError("Logic::sortToString not recognised: " + b[:200])
    if "forbiddenVars.find(var) != forbiddenVars.end()" in norm(t) and "resolver.addForbiddenVar(term);" in norm(t):
        res["clash"] = "by-term"
    elif "while (logic.hasSym(name.c_str()));" in norm(t) and "resolver.addForbiddenName(logic->getSymName(symref));" in norm(t) \
            and "forbiddenNames.find(name) != forbiddenNames.end() or logic.isAmbiguousUninterpretedNullarySymbolName(name)" in norm(t):
        res["clash"] = "by-name"
    else:
        raise TranslateError("NameClashResolver not recognised")
    return res


def coq_str(s):
    out = []
    for ch in s:
        if ch == '"':
            out.append('""')
        else:
            out.append(ch)
    return '"' + "".join(out) + '"'


def coq_bool(b):
    return "true" if b else "false"


def generate():
    tn = token_names()
    lg = logic_cc()
    lx = lexer()
    md = model_cc()
    ip = interpret_cc()
    L = []
    L.append("(* GENERATED by translate/smt2tokens.py from the working tree of the repository -- do not edit. *)")
    L.append("From Coq Require Import String List Bool.")
    L.append("Import ListNotations.")
    L.append("Open Scope string_scope.")
    L.append("")
    L.append("(* src/api/smt2tokens.h: tokens::tokenNames -- the set Logic::isReservedWord consults *)")
    L.append("Definition gen_tokenNames : list string :=\n  [" + "; ".join(coq_str(n) for n in tn) + "].")
    L.append("")
    L.append("(* src/logics/Logic.cc: Logic::hasQuotableChars *)")
    L.append("Definition gen_simple_chars : string := %s." % coq_str(lg["chars"]))
    L.append("Definition gen_already_quoted_shortcut : bool := %s." % coq_bool(lg["shortcut"]))
    L.append("")
    L.append("(* src/logics/Logic.cc: Logic::protectName -- which tests guard the quoting *)")
    for k in ("interp", "quotable", "digit", "reserved", "empty", "minus_digit"):
        L.append("Definition gen_protect_%s : bool := %s." % (k, coq_bool(lg["protect"][k])))
    L.append("")
    L.append("(* Logic::disambiguateName / PtStore::isAmbiguousNullarySymbolName: the lookup key is the C string at the")
    L.append("   string_view's data(), i.e. for a quoted name |x| the key is  x|  *)")
    L.append("Definition gen_disamb_key_is_view_data : bool := %s." % coq_bool(lg["view_data"]))
    L.append("Definition gen_abstract_prefix : string := %s." % coq_str(lg["absprefix"]))
    L.append("")
    L.append("(* src/parsers/smt2new/smt2newlexer.ll *)")
    L.append("Definition gen_lexer_reserved : list string :=\n  [" + "; ".join(coq_str(n) for n in lx["reserved"]) + "].")
    L.append("Definition gen_lexer_sym_first : string := %s." % coq_str(lx["sym_first"]))
    L.append("Definition gen_lexer_sym_rest : string := %s." % coq_str(lx["sym_rest"]))
    L.append("Definition gen_lexer_neg_numerals : bool := %s." % coq_bool(lx["neg_numerals"]))
    L.append("")
    L.append("(* src/models/Model.cc *)")
    L.append("Definition gen_formal_prefix : string := %s." % coq_str(md["prefix"]))
    L.append("Definition gen_formal_collision_own_name_only : bool := %s." % coq_bool(md["rule"] == "own-name-only"))
    L.append("Definition gen_default_definition_raw_name : bool := %s." % coq_bool(md["default_raw"]))
    L.append("Definition gen_formal_args_unchecked : bool := %s." % coq_bool(md["unchecked"]))
    L.append("")
    L.append("(* src/api/Interpret.cc, src/unsatcores/UnsatCore.cc, src/sorts/SStore.h *)")
    L.append("Definition gen_safe_prefix_char : string := %s." % coq_str(ip["safe_char"]))
    L.append("Definition gen_safe_prefix_if : string := %s." % coq_str(ip["safe_if"]))
    L.append("Definition gen_safe_prefix_else : string := %s." % coq_str(ip["safe_else"]))
    L.append("Definition gen_assignment_raw_names : bool := %s." % coq_bool(ip["assign"]["raw"]))
    L.append("Definition gen_assignment_seekp_unguarded : bool := %s." % coq_bool(ip["assign"]["seekp"]))
    L.append("Definition gen_assignment_text_as_format : bool := %s." % coq_bool(ip["assign"]["fmt"]))
    L.append("Definition gen_echo_raw_names : bool := %s." % coq_bool(ip["echo"] == "raw"))
    L.append("Definition gen_echo_bang_glued : bool := %s." % coq_bool(ip["bang_glued"]))
    L.append("Definition gen_core_raw_names : bool := %s." % coq_bool(ip["core"] == "raw"))
    L.append("Definition gen_sort_raw_names : bool := %s." % coq_bool(ip["sort"] == "raw"))
    L.append("Definition gen_clash_by_term : bool := %s." % coq_bool(ip["clash"] == "by-term"))
    return "\n".join(L) + "\n"


def main():
    try:
        txt = generate()
    except TranslateError as e:
        print("translator smt2tokens.py: " + str(e))
        return 3
    os.makedirs(os.path.dirname(OUT), exist_ok=True)
    old = open(OUT).read() if os.path.exists(OUT) else None
    if old != txt:
        with open(OUT, "w") as f:
            f.write(txt)
        print("Gen_Tokens.v regenerated")
    else:
        print("Gen_Tokens.v unchanged")
    return 0


if __name__ == "__main__":
    sys.exit(main())
