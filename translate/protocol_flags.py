#!/usr/bin/env python3
"""Regenerate coq/Front/Protocol_Gen.v: the facts of the status / diagnostic protocol that the Coq model
(Front/Protocol.v) reads from the source text.

  gen_main_checks_parse      main (src/bin/opensmt.cc) uses the value of interpreter.interpFile(fin)
                             (now: expression statement, value dropped)
  gen_yyerror_clears_status  osmt_yyerror (smt2newparser.yy) ends the process / clears the status (now: printf only)
  gen_interp_handlers        handlers of the outer try block of Interpret::interp (now: ApiException)
  gen_pipe_reports_pending   Interpret::interpPipe says something when standard input ends inside a command
                             (now: `if (bts_rd == 0) { break; }` and nothing after the loop)
  gen_notify_clears_status   notify_formatted(true, ...) sets _okStatus = false
  gen_main_status_from_ok    main returns interpreter.okStatus() ? 0 : 1
A fact the translator cannot establish either way is a broken tie (TranslatorError, exit status 3).
"""
import os
import re
import sys

HERE = os.path.dirname(os.path.abspath(__file__))
VERIF = os.path.dirname(HERE)
sys.path.insert(0, HERE)
from pipe_flags import function_text, tokenize, TranslatorError   # noqa: E402

HANDLERS = {"ApiException": "HApi", "std::exception": "HStdException", "...": "HAll",
            "std::out_of_range": "HOutOfRange", "std::logic_error": "HLogicError",
            "ArithDivisionByZeroException": "HDivZero", "std::runtime_error": "HRuntimeError",
            "LANonLinearException": "HNonLinear", "InternalException": "HInternal"}


def strip_comments(src):
    return re.sub(r"//[^\n]*|/\*.*?\*/", "", src, flags=re.S)


def outer_handlers(ftxt):
    """catch clauses attached to the first (outermost) try of the function"""
    toks = tokenize(ftxt)
    try:
        i = toks.index("try")
    except ValueError:
        return []
    # skip the try block
    depth, j = 0, i + 1
    while j < len(toks):
        if toks[j] == "{":
            depth += 1
        elif toks[j] == "}":
            depth -= 1
            if depth == 0:
                j += 1
                break
        j += 1
    out = []
    while j < len(toks) and toks[j] == "catch":
        k = j + 2
        ty = []
        while toks[k] != ")":
            ty.append(toks[k])
            k += 1
        if ty and all(t == "." for t in ty):
            name = "..."
        else:
            # drop a trailing variable name: an identifier not preceded by `::`
            if len(ty) >= 2 and re.fullmatch(r"[A-Za-z_][A-Za-z_0-9]*", ty[-1]) and ty[-2] != "::":
                ty = ty[:-1]
            name = "".join(t for t in ty if t not in ("const", "&"))
        name = name.replace("opensmt::", "")
        if name not in HANDLERS:
            raise TranslatorError("Interpret::interp: handler type %r not in the model's table" % name)
        out.append(HANDLERS[name])
        # skip handler block
        depth, j = 0, k + 1
        while j < len(toks):
            if toks[j] == "{":
                depth += 1
            elif toks[j] == "}":
                depth -= 1
                if depth == 0:
                    j += 1
                    break
            j += 1
    return out


def translate(repo):
    R = lambda *p: open(os.path.join(repo, "src", *p), errors="replace").read()
    main_src = strip_comments(R("bin", "opensmt.cc"))
    interp_src = R("api", "Interpret.cc")
    yy = R("parsers", "smt2new", "smt2newparser.yy")
    # main: is the value of interpFile used?
    m = re.search(r"([^;{}]*)\binterpFile\s*\(\s*fin\s*\)([^;]*);", main_src)
    if not m:
        raise TranslatorError("main: call interpreter.interpFile(fin) not found")
    before, after = m.group(1).strip(), m.group(2).strip()
    used = bool(re.search(r"(=|\bif\b|\breturn\b|\|\||&&|!=|==)", before + " " + after))
    if not used and not re.fullmatch(r"(else\s*)?interpreter\s*\.", before.split("\n")[-1].strip()) and before.split("\n")[-1].strip() not in ("interpreter.", ""):
        raise TranslatorError("main: cannot tell whether the result of interpFile is used: %r" % (before[-60:] + "interpFile(fin)" + after))
    m2 = re.search(r"int\s+const\s+exit_status\s*=\s*interpreter\s*\.\s*okStatus\s*\(\s*\)\s*\?\s*0\s*:\s*1\s*;\s*return\s+exit_status\s*;", main_src)
    m2b = re.search(r"return\s+interpreter\s*\.\s*okStatus\s*\(\s*\)\s*\?\s*0\s*:\s*1\s*;", main_src)
    status_from_ok = bool(m2 or m2b)
    if not status_from_ok and not used:
        raise TranslatorError("main: exit status is no longer `interpreter.okStatus() ? 0 : 1`; protocol not recognised")
    if used and not status_from_ok:
        # a repaired main may combine both; accept `okStatus() && rval == 0`-like forms only when okStatus is still consulted
        if "okStatus" not in main_src:
            raise TranslatorError("main: okStatus() no longer consulted")
        status_from_ok = True
    if re.search(r"\btry\b", main_src[main_src.index("int main"):main_src.index("namespace opensmt {", main_src.index("int main"))]):
        main_try = True
    else:
        main_try = False
    # yyerror
    ytxt = strip_comments(yy)
    ym = re.search(r"void\s+osmt_yyerror\s*\([^)]*\)\s*\{(.*?)\n\}", ytxt, re.S)
    if not ym:
        raise TranslatorError("osmt_yyerror not found in smt2newparser.yy")
    ybody = ym.group(1)
    if "printf" not in ybody:
        raise TranslatorError("osmt_yyerror no longer prints with printf; diagnostics format not recognised")
    yclears = bool(re.search(r"\bexit\s*\(|okStatus|abort\s*\(", ybody))
    # Interpret::interp handlers
    itxt, _ = function_text(interp_src, "void Interpret::interp(ASTNode& n)")
    handlers = outer_handlers(itxt)
    # notify_formatted clears status
    ntxt, _ = function_text(interp_src, "void Interpret::notify_formatted(bool error, const char* fmt_str, ...) const")
    nclears = bool(re.search(r"if\s*\(\s*error\s*\)\s*\{[^}]*_okStatus\s*=\s*false\s*;", strip_comments(ntxt), re.S))
    # interpPipe: EOF with pending text
    ptxt, _ = function_text(interp_src, "int Interpret::interpPipe()")
    ptxt = strip_comments(ptxt)
    pm = re.search(r"if\s*\(\s*bts_rd\s*==\s*0\s*\)\s*\{(.*?)\}", ptxt, re.S)
    if not pm:
        raise TranslatorError("interpPipe: end-of-input branch `if (bts_rd == 0)` not found")
    if "free(buf)" not in ptxt or "done = true" not in ptxt:
        raise TranslatorError("interpPipe: loop exit / free(buf) not found")
    seg = ptxt[ptxt.rindex("done = true"):ptxt.rindex("free(buf)")]
    reports = "notify_formatted" in pm.group(1) or "notify_formatted" in seg
    out = []
    out.append("(* GENERATED by translate/protocol_flags.py from src/bin/opensmt.cc, src/api/Interpret.cc and\n"
               "   src/parsers/smt2new/smt2newparser.yy.  Do not edit. *)")
    out.append("From Coq Require Import List Bool.\nFrom OsmtV.Front Require Import ProtocolBase.\nImport ListNotations.\n")
    out.append("(* main: the value of interpreter.interpFile(fin) is %s *)" % ("used" if used else "dropped"))
    out.append("Definition gen_main_checks_parse : bool := %s.\n" % ("true" if used else "false"))
    out.append("(* main is wrapped in a try block *)\nDefinition gen_main_has_try : bool := %s.\n" % ("true" if main_try else "false"))
    out.append("(* osmt_yyerror: printf only (false) / ends the run or clears the status (true) *)")
    out.append("Definition gen_yyerror_clears_status : bool := %s.\n" % ("true" if yclears else "false"))
    out.append("(* handlers of the outer try of Interpret::interp, in order *)")
    out.append("Definition gen_interp_handlers : list handler := [%s].\n" % "; ".join(handlers))
    out.append("(* notify_formatted(true, ...) clears _okStatus *)\nDefinition gen_notify_clears_status : bool := %s.\n" % ("true" if nclears else "false"))
    out.append("(* interpPipe reports text that is still pending when standard input ends *)")
    out.append("Definition gen_pipe_reports_pending : bool := %s." % ("true" if reports else "false"))
    return "\n".join(out) + "\n"


def regenerate(repo="/repo", out=None, write=True):
    out = out or os.path.join(VERIF, "coq", "Front", "Protocol_Gen.v")
    txt = translate(repo)
    old = open(out).read() if os.path.exists(out) else None
    if old != txt and write:
        with open(out, "w") as f:
            f.write(txt)
    return old != txt, txt


if __name__ == "__main__":
    repo, out, write = "/repo", None, True
    a = sys.argv[1:]
    while a:
        x = a.pop(0)
        if x == "--repo":
            repo = a.pop(0)
        elif x == "--out":
            out = a.pop(0)
        elif x == "--check":
            write = False
    try:
        ch, txt = regenerate(repo, out, write)
        print("Protocol_Gen.v %s" % ("changed" if ch else "unchanged"))
    except TranslatorError as e:
        print("BROKEN TIE: " + str(e))
        sys.exit(3)
