#!/usr/bin/env python3
"""Regenerate coq/Num/Gen_LexNum.v: the INITIAL-state rules of src/parsers/smt2new/smt2newlexer.ll as
regular-expression ASTs (in rule order, which is flex's tie-break order).

Supported flex syntax: literal characters, \\-escapes, "quoted strings", character classes with ranges
and escapes (also negated), '.', grouping, |, ?, *, +.  Start-condition blocks <STR>{...} / <PSYM>{...}
are skipped (their entry rules \\" and \\| are kept as tokens STR_START / PSYM_START); anything else
raises TranslateError."""
import os
import re
import sys


class TranslateError(Exception):
    pass


ESC = {"n": 10, "t": 9, "r": 13, "f": 12, "v": 11, "0": 0}


class P:
    def __init__(self, s):
        self.s, self.i = s, 0

    def peek(self):
        return self.s[self.i] if self.i < len(self.s) else None

    def eat(self):
        c = self.s[self.i]
        self.i += 1
        return c

    def esc(self):
        c = self.eat()
        return ESC.get(c, ord(c))

    def alt(self):
        a = self.cat()
        while self.peek() == "|":
            self.eat()
            a = ("Alt", a, self.cat())
        return a

    def cat(self):
        items = []
        while self.peek() is not None and self.peek() not in "|)":
            items.append(self.rep())
        if not items:
            return ("Eps",)
        r = items[-1]
        for x in reversed(items[:-1]):
            r = ("Cat", x, r)
        return r

    def rep(self):
        a = self.atom()
        while self.peek() is not None and self.peek() in "*+?":
            o = self.eat()
            a = ({"*": "Star", "+": "Plus", "?": "Opt"}[o], a)
        return a

    def atom(self):
        c = self.eat()
        if c == "(":
            a = self.alt()
            if self.peek() != ")":
                raise TranslateError("missing )")
            self.eat()
            return a
        if c == "[":
            return self.cls()
        if c == "\\":
            return ("Cls", [(self.esc(),) * 2])
        if c == ".":
            return ("NCls", [(10, 10)])
        if c == '"':
            cs = []
            while self.peek() != '"':
                if self.peek() is None:
                    raise TranslateError("unterminated string")
                ch = self.eat()
                cs.append(self.esc() if ch == "\\" else ord(ch))
            self.eat()
            r = ("Eps",)
            for x in reversed(cs):
                r = ("Cat", ("Cls", [(x, x)]), r) if r != ("Eps",) else ("Cls", [(x, x)])
            return r
        if c in "{}<>^$/":
            raise TranslateError("unsupported flex operator " + c)
        return ("Cls", [(ord(c),) * 2])

    def cls(self):
        neg = False
        if self.peek() == "^":
            self.eat()
            neg = True
        rs = []
        first = True
        while True:
            c = self.peek()
            if c is None:
                raise TranslateError("unterminated class")
            if c == "]" and not first:
                self.eat()
                break
            first = False
            c = self.eat()
            lo = self.esc() if c == "\\" else ord(c)
            if self.peek() == "-" and self.i + 1 < len(self.s) and self.s[self.i + 1] != "]":
                self.eat()
                c2 = self.eat()
                hi = self.esc() if c2 == "\\" else ord(c2)
                if hi < lo:
                    raise TranslateError("bad range")
                rs.append((lo, hi))
            else:
                rs.append((lo, lo))
        return ("NCls" if neg else "Cls", rs)


def parse_regex(s):
    p = P(s)
    r = p.alt()
    if p.i != len(s):
        raise TranslateError("trailing text in pattern: " + s[p.i:])
    return r


def split_rule(line):
    """pattern = up to the first unquoted, unbracketed, unescaped blank."""
    i, n = 0, len(line)
    inq = inb = False
    while i < n:
        c = line[i]
        if c == "\\":
            i += 2
            continue
        if inq:
            inq = c != '"'
        elif inb:
            inb = c != "]"
        elif c == '"':
            inq = True
        elif c == "[":
            inb = True
        elif c in " \t":
            break
        i += 1
    return line[:i], line[i:].strip()


def coq(r):
    k = r[0]
    if k == "Eps":
        return "Eps"
    if k in ("Cls", "NCls"):
        return "(%s [%s])" % (k, "; ".join("(%d, %d)" % x for x in r[1]))
    if k in ("Cat", "Alt"):
        return "(%s %s %s)" % (k, coq(r[1]), coq(r[2]))
    return "(%s %s)" % (k, coq(r[1]))


def translate(text):
    parts = text.split("\n%%\n")
    if len(parts) < 3:
        raise TranslateError("sections of the flex file not found")
    rules = []
    lines = parts[1].split("\n")
    i = 0
    while i < len(lines):
        l = lines[i]
        i += 1
        if not l.strip():
            continue
        if re.match(r"^<\w+>\{", l):
            while i < len(lines) and lines[i].strip() != "}":
                i += 1
            i += 1
            continue
        pat, act = split_rule(l)
        if not pat:
            raise TranslateError("rule without pattern: " + l)
        m = re.search(r"return (TK_\w+|KW_\w+)\s*;", act)
        if m:
            name = m.group(1)
        elif "return *yyget_text" in act:
            name = "CHAR"
        elif "yy_push_state(STR" in act:
            name = "STR_START"
        elif "yy_push_state(PSYM" in act:
            name = "PSYM_START"
        elif "Syntax error" in act:
            name = "ERROR"
        elif act.startswith("//"):
            name = "SKIP"
        else:
            raise TranslateError("unrecognised action: " + act[:80])
        rules.append((name, pat, parse_regex(pat)))
    names = [n for n, _, _ in rules]
    for need in ("TK_NUM", "TK_DEC", "TK_HEX", "TK_BIN", "TK_SYM", "TK_KEY", "ERROR", "SKIP"):
        if need not in names:
            raise TranslateError("no rule for " + need)
    kinds = []
    for n in names:
        if n not in kinds:
            kinds.append(n)
    o = ["(* GENERATED by translate/lexnum.py from src/parsers/smt2new/smt2newlexer.ll - do not edit. *)",
         "From Coq Require Import NArith List.", "From OsmtV.Num Require Import Chars Regex.", "Import ListNotations.",
         "Local Open Scope N_scope.", "",
         "Inductive tok := " + " | ".join(kinds) + ".", ""]
    for n in ("TK_NUM", "TK_DEC", "TK_HEX", "TK_BIN", "TK_SYM", "TK_KEY"):
        idx = names.index(n)
        o.append("(* %s *)" % rules[idx][1].replace("*)", "* )").replace("(*", "( *"))
        o.append("Definition re_%s : re := %s." % (n, coq(rules[idx][2])))
    o += ["", "(* all INITIAL-state rules, in file order *)", "Definition lex_rules : list (tok * re) :=", "  ["]
    body = []
    for n, pat, r in rules:
        if n in ("TK_NUM", "TK_DEC", "TK_HEX", "TK_BIN", "TK_SYM", "TK_KEY"):
            body.append("   (%s, re_%s)" % (n, n))
        else:
            body.append("   (%s, %s)" % (n, coq(r)))
    o.append(";\n".join(body))
    o += ["  ].", ""]
    return "\n".join(o)


def main(repo, out):
    text = open(os.path.join(repo, "src/parsers/smt2new/smt2newlexer.ll")).read()
    gen = translate(text)
    old = open(out).read() if os.path.exists(out) else None
    if old != gen:
        with open(out, "w") as f:
            f.write(gen)
        return True
    return False


if __name__ == "__main__":
    repo = sys.argv[1] if len(sys.argv) > 1 else "/repo"
    out = sys.argv[2] if len(sys.argv) > 2 else os.path.join(os.path.dirname(os.path.abspath(__file__)), "..", "coq", "Num", "Gen_LexNum.v")
    print("changed" if main(repo, out) else "unchanged")
