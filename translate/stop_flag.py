#!/usr/bin/env python3
"""C25 translator: regenerate coq/Conc/Gen_StopFlag.v from the text of
src/smtsolvers/CoreSMTSolver.{h,cc}, src/api/GlobalStop.cc, src/smtsolvers/LookaheadSMTSolver.cc,
src/smtsolvers/SimpSMTSolver.cc and src/api/MainSolver.cc.

Read off the source:
  * the declared types of `stopFlag` (CoreSMTSolver.h) and `globalStopFlag` (GlobalStop.cc):
    plain/volatile bool -> not atomic; std::atomic<bool> / std::atomic_bool / std::atomic_flag -> atomic
  * the accessors: notifyStop sets the flag, stopped() returns it, notifyGlobalStop / globallyStopped
    likewise, okContinue() = not stopped() and not globallyStopped()
  * the poll sites (calls of okContinue() outside assert(...)) in CoreSMTSolver::solve_ (loop head),
    CoreSMTSolver::search (loop head + after propagate), SimpSMTSolver::eliminate (>=1),
    LookaheadSMTSolver::solve_ (none today)
  * search() ends with cancelUntil(0); ... return l_Undef;   solve_ copies the model only on l_True
  * MainSolver::check calls rememberUnsatFrame only under `rval == s_False`; MainSolver::solve calls
    computeModel only under `status == s_True`
If anything is not recognised: ok=False (tie broken), never a guess.
"""
import os
import re
import sys

VERIF = os.path.dirname(os.path.dirname(os.path.abspath(__file__)))
OUT = os.path.join(VERIF, "coq", "Conc", "Gen_StopFlag.v")


def strip_comments(txt):
    """comments out; also the add-only verification hooks (#ifdef OPENSMT_VERIF ... #endif), which are
    not part of the production code the model is about (line structure is kept)"""
    txt = re.sub(r"/\*.*?\*/", lambda m: "\n" * m.group(0).count("\n"), txt, flags=re.S)
    txt = re.sub(r"//[^\n]*", "", txt)
    return re.sub(r"^[ \t]*#[ \t]*ifdef[ \t]+OPENSMT_VERIF\b.*?^[ \t]*#[ \t]*endif[^\n]*", lambda m: "\n" * m.group(0).count("\n"),
                  txt, flags=re.S | re.M)


def body_of(txt, header_rx):
    m = re.search(header_rx, txt)
    if not m:
        return None, None
    i = txt.index("{", m.end() - 1) if txt[m.end() - 1] != "{" else m.end() - 1
    depth, j = 0, i
    while j < len(txt):
        if txt[j] == "{":
            depth += 1
        elif txt[j] == "}":
            depth -= 1
            if depth == 0:
                return txt[i + 1:j], txt[:m.start()].count("\n") + 1
        j += 1
    return None, None


def strip_asserts(body):
    out, i = [], 0
    for m in re.finditer(r"\bassert\s*\(", body):
        if m.start() < i:
            continue
        out.append(body[i:m.start()])
        depth, j = 0, m.end() - 1
        while j < len(body):
            if body[j] == "(":
                depth += 1
            elif body[j] == ")":
                depth -= 1
                if depth == 0:
                    break
            j += 1
        i = j + 1
    out.append(body[i:])
    return "".join(out)


def polls(body):
    return len(re.findall(r"\bokContinue\s*\(\s*\)", strip_asserts(body)))


ATOMIC_T = r"(?:std::atomic\s*<\s*bool\s*>|std::atomic_bool|std::atomic_flag)"
PLAIN_T = r"(?:volatile\s+)?bool"


def flag_kind(txt, name):
    """('atomic'|'plain'|None, line) for the declaration of `name`"""
    m = re.search(r"^[ \t]*(?:static\s+|inline\s+|mutable\s+)*(%s|%s)\s+%s\b[^;(]*;" % (ATOMIC_T, PLAIN_T, name), txt, re.M)
    if not m:
        return None, None
    return ("atomic" if re.match(ATOMIC_T, m.group(1)) else "plain"), txt[:m.start()].count("\n") + 1


def norm(s):
    return re.sub(r"\s+", "", s).replace("!", "not").replace("&&", "and")


def analyse(repo):
    r = dict(ok=False, detail="", atomic=False, stop_atomic=False, global_atomic=False, polls_solve=0, polls_search=0,
             polls_elim=0, polls_bwdsub=0, polls_elsewhere=0, polls_lookahead=0, poll_after_conflict=True, anchors={}, notes=[])

    def rd(rel):
        return strip_comments(open(os.path.join(repo, rel)).read())
    try:
        ch, cc = rd("src/smtsolvers/CoreSMTSolver.h"), rd("src/smtsolvers/CoreSMTSolver.cc")
        gs, la = rd("src/api/GlobalStop.cc"), rd("src/smtsolvers/LookaheadSMTSolver.cc")
        ss, ms = rd("src/smtsolvers/SimpSMTSolver.cc"), rd("src/api/MainSolver.cc")
    except OSError as e:
        r["detail"] = "cannot read source: %s" % e
        return r

    def fail(msg):
        r["detail"] = msg
        return r

    # --- declarations ---------------------------------------------------------------------------
    k1, l1 = flag_kind(ch, "stopFlag")
    k2, l2 = flag_kind(gs, "globalStopFlag")
    if k1 is None:
        return fail("declaration of CoreSMTSolver::stopFlag not recognised in CoreSMTSolver.h")
    if k2 is None:
        return fail("declaration of globalStopFlag not recognised in GlobalStop.cc")
    r["anchors"].update(stopFlag="CoreSMTSolver.h:%d" % l1, globalStopFlag="GlobalStop.cc:%d" % l2)
    r["stop_atomic"], r["global_atomic"] = k1 == "atomic", k2 == "atomic"
    r["atomic"] = r["stop_atomic"] and r["global_atomic"]

    # --- accessors --------------------------------------------------------------------------------
    SET = r"(?:=true|\.store\(true(?:,[\w:]+)?\)|\.test_and_set\((?:[\w:]+)?\))"
    GET = r"(?:|\.load\((?:[\w:]+)?\)|\.test\((?:[\w:]+)?\))"
    b, _ = body_of(ch, r"\bvoid\s+notifyStop\s*\(\s*\)\s*\{")
    if b is None or not re.fullmatch(r"stopFlag%s;" % SET, norm(b)):
        return fail("CoreSMTSolver::notifyStop is not `stopFlag = true`: %r" % (b,))
    b, _ = body_of(ch, r"\bbool\s+stopped\s*\(\s*\)\s*const\s*\{")
    if b is None or not re.fullmatch(r"returnstopFlag%s;" % GET, norm(b)):
        return fail("CoreSMTSolver::stopped is not `return stopFlag`: %r" % (b,))
    b, _ = body_of(gs, r"\bvoid\s+notifyGlobalStop\s*\(\s*\)\s*\{")
    if b is None or not re.fullmatch(r"globalStopFlag%s;" % SET, norm(b)):
        return fail("notifyGlobalStop is not `globalStopFlag = true`: %r" % (b,))
    b, _ = body_of(gs, r"\bbool\s+globallyStopped\s*\(\s*\)\s*\{")
    if b is None or not re.fullmatch(r"returnglobalStopFlag%s;" % GET, norm(b)):
        return fail("globallyStopped is not `return globalStopFlag`: %r" % (b,))
    b, ln = body_of(cc, r"\bbool\s+CoreSMTSolver\s*::\s*okContinue\s*\(\s*\)\s*const\s*\{")
    if b is None or norm(b) not in ("returnnotstopped()andnotgloballyStopped();", "returnnotgloballyStopped()andnotstopped();"):
        return fail("CoreSMTSolver::okContinue is not `not stopped() and not globallyStopped()`: %r" % (b,))
    r["anchors"]["okContinue"] = "CoreSMTSolver.cc:%d" % ln
    writes = re.findall(r"\bstopFlag\s*(?:=[^=]|\.store|\.clear|\.exchange)", ch + cc)
    if len(writes) != 1:
        return fail("stopFlag is written at %d places, the model has one (notifyStop)" % len(writes))

    # --- poll sites ---------------------------------------------------------------------------------
    b, ln = body_of(cc, r"\blbool\s+CoreSMTSolver\s*::\s*solve_\s*\(\s*\)\s*\{")
    if b is None:
        return fail("CoreSMTSolver::solve_ not found")
    r["polls_solve"], r["anchors"]["solve_"] = polls(b), "CoreSMTSolver.cc:%d" % ln
    if not re.search(r"while\s*\(\s*status\s*==\s*l_Undef\s*(?:&&|and)\s*okContinue\s*\(\s*\)\s*\)", b):
        return fail("solve_ loop is not `while (status == l_Undef && okContinue())`")
    if not re.search(r"if\s*\(\s*status\s*==\s*l_True\s*\)\s*\{[^}]*model\s*\.\s*growTo", b):
        return fail("solve_ no longer copies the model under `status == l_True` only")
    b, ln = body_of(cc, r"\blbool\s+CoreSMTSolver\s*::\s*search\s*\([^)]*\)\s*\{")
    if b is None:
        return fail("CoreSMTSolver::search not found")
    r["polls_search"], r["anchors"]["search"] = polls(b), "CoreSMTSolver.cc:%d" % ln
    nb = norm(strip_asserts(b))
    # the poll after propagate(): unconditional (today) or only when propagate() found no conflict
    brk_plain = "if(notokContinue()){break;}"
    brk_guarded = [g for g in ("if(confl==CRef_UndefandnotokContinue()){break;}", "if(notokContinue()andconfl==CRef_Undef){break;}") if g in nb]
    if "while(okContinue()){" not in nb or (brk_plain not in nb and not brk_guarded):
        return fail("search loop is not `while (okContinue()) { ... if ([confl == CRef_Undef and] not okContinue()) { break; } ...`")
    if not nb.endswith("cancelUntil(0);notifyEnd();returnl_Undef;"):
        return fail("search no longer ends with cancelUntil(0); notifyEnd(); return l_Undef;")
    brk = brk_plain if brk_plain in nb else brk_guarded[0]
    i_prop, i_brk = nb.index("CRefconfl=propagate();"), nb.index(brk)
    if not nb.index("while(okContinue()){") < i_prop < i_brk or nb[i_prop:i_brk] != "CRefconfl=propagate();runPeriodic();":
        return fail("the second poll of search is not right after `CRef confl = propagate(); runPeriodic();`")
    if "if(conflnot=CRef_Undef){" not in nb[i_brk:]:   # norm() spells != as not=
        return fail("search no longer handles the conflict right after the second poll")
    r["poll_after_conflict"] = brk == brk_plain
    b, ln = body_of(ss, r"\bbool\s+SimpSMTSolver\s*::\s*eliminate\s*\([^)]*\)\s*\{")
    if b is None:
        return fail("SimpSMTSolver::eliminate not found")
    r["polls_elim"], r["anchors"]["eliminate"] = polls(b), "SimpSMTSolver.cc:%d" % ln
    # The polls of the simplifier must sit BETWEEN whole units of clause-database surgery (the model's
    # elim_work is "the work up to the next poll" and is assumed to leave an equisatisfiable database):
    #   eliminate(): once per round of the main loop (then `goto cleanup`) and once per variable taken from the heap,
    #   backwardSubsumptionCheck(): at the head of its loop, before a clause is taken from the queue.
    ne = norm(strip_asserts(b))
    if polls(b) and (not re.search(r"if\(notokContinue\(\)\)\{;*elim_heap\.clear\(\);gotocleanup;\}", ne) or
                     "Varelim=elim_heap.removeMin();if(notokContinue())break;" not in ne or polls(b) != 2):
        return fail("the polls of SimpSMTSolver::eliminate are not the two the model has (per round: clear heap and goto cleanup; "
                    "per variable: right after elim_heap.removeMin())")
    bb, lnb = body_of(ss, r"\bbool\s+SimpSMTSolver\s*::\s*backwardSubsumptionCheck\s*\([^)]*\)\s*\{")
    if bb is None:
        return fail("SimpSMTSolver::backwardSubsumptionCheck not found")
    r["polls_bwdsub"], r["anchors"]["backwardSubsumptionCheck"] = polls(bb), "SimpSMTSolver.cc:%d" % lnb
    nbb = norm(strip_asserts(bb))
    if polls(bb) and (polls(bb) != 1 or not re.search(
            r"while\(subsumption_queue\.size\(\)>0\|\|bwdsub_assigns<trail\.size\(\)\)\{if\(notokContinue\(\)\)\{subsumption_queue\.clear\(\);bwdsub_assigns=trail\.size\(\);break;\}", nbb)):
        return fail("the poll of backwardSubsumptionCheck is not at the head of its loop")
    b, ln = body_of(la, r"\blbool\s+LookaheadSMTSolver\s*::\s*solve_\s*\(\s*\)\s*\{")
    if b is None:
        return fail("LookaheadSMTSolver::solve_ not found")
    r["polls_lookahead"], r["anchors"]["lookahead_solve_"] = polls(b), "LookaheadSMTSolver.cc:%d" % ln
    if r["polls_lookahead"] and not re.search(r"while\s*\([^)]*okContinue\s*\(\s*\)", strip_asserts(b)):
        return fail("LookaheadSMTSolver::solve_ polls the flag somewhere else than in its loop condition")
    total = 0
    srcroot = os.path.join(repo, "src")
    for d, _, fs in os.walk(srcroot):
        if os.path.relpath(d, srcroot).split(os.sep)[0] in ("parallel", "bin"):
            continue
        for f in fs:
            if f.endswith((".cc", ".h", ".hpp", ".C")):
                txt = strip_comments(open(os.path.join(d, f), errors="replace").read())
                txt = re.sub(r"\b(?:CoreSMTSolver\s*::\s*)okContinue\s*\(\s*\)\s*const", "", txt)          # the definition
                txt = re.sub(r"\bbool\s+okContinue\s*\(\s*\)\s*const", "", txt)                               # declarations
                total += polls(txt)
    r["polls_elsewhere"] = total - (r["polls_solve"] + r["polls_search"] + r["polls_elim"] + r["polls_bwdsub"] + r["polls_lookahead"])
    if r["polls_elsewhere"]:
        r["notes"].append("%d poll(s) of okContinue() outside solve_/search/eliminate/backwardSubsumptionCheck/lookahead solve_" % r["polls_elsewhere"])
    whole_la = polls(la)
    if whole_la != r["polls_lookahead"]:
        r["notes"].append("LookaheadSMTSolver.cc polls okContinue() at %d place(s) outside solve_" % (whole_la - r["polls_lookahead"]))

    # --- MainSolver -----------------------------------------------------------------------------------
    b, ln = body_of(ms, r"\bsstat\s+MainSolver\s*::\s*check\s*\(\s*\)\s*\{")
    if b is None:
        return fail("MainSolver::check not found")
    r["anchors"]["check"] = "MainSolver.cc:%d" % ln
    nb = norm(b)
    if nb.count("rememberUnsatFrame(") != 1 or "if(rval==s_False){" not in nb or \
            not nb.index("if(rval==s_False){") < nb.index("rememberUnsatFrame("):
        return fail("MainSolver::check does not call rememberUnsatFrame exactly once, under `rval == s_False`")
    if "if(isLastFrameUnsat()){returns_False;}" not in nb:
        return fail("MainSolver::check lost `if (isLastFrameUnsat()) return s_False`")
    b, ln = body_of(ms, r"\bsstat\s+MainSolver\s*::\s*solve\s*\(\s*\)\s*\{")
    if b is None:
        return fail("MainSolver::solve not found")
    nb = norm(b)
    if "if(status==s_Trueandconfig.produce_models())thandler->computeModel();" not in nb:
        return fail("MainSolver::solve: computeModel is no longer guarded by `status == s_True`")
    if "smt_solver->clearSearch();" not in nb or "if(notsmt_solver->isOK()){returns_False;}" not in nb:
        return fail("MainSolver::solve lost clearSearch() or the isOK() entry check")

    r["ok"] = True
    r["detail"] = "stopFlag: %s, globalStopFlag: %s; polls: solve_=%d search=%d eliminate=%d lookahead solve_=%d; poll after propagate() %s" % (
        k1, k2, r["polls_solve"], r["polls_search"], r["polls_elim"], r["polls_lookahead"],
        "even with a conflict pending" if r["poll_after_conflict"] else "only without a pending conflict")
    return r


def render(r):
    b = lambda x: "true" if x else "false"
    return """(* GENERATED by translate/stop_flag.py from src/smtsolvers/CoreSMTSolver.{h,cc}, src/api/GlobalStop.cc,
   src/smtsolvers/{Lookahead,Simp}SMTSolver.cc, src/api/MainSolver.cc - do not edit.
   %s
   anchors: %s *)
(* declared types of the two flags: std::atomic<bool> (true) or plain bool (false) *)
Definition stop_flag_atomic : bool := %s.
Definition global_flag_atomic : bool := %s.
Definition atomic : bool := %s.
(* calls of okContinue() outside assert(..) per function body *)
Definition polls_solve : nat := %d.
Definition polls_search : nat := %d.
Definition polls_eliminate : nat := %d.
Definition polls_backward_subsumption : nat := %d.
(* calls anywhere else in src/ (parallel/ excluded): a poll in a region the model treats as one atomic piece of work *)
Definition polls_elsewhere : nat := %d.
Definition polls_lookahead_solve : nat := %d.
Definition lookahead_polls : bool := %s.
(* search(): is `if (not okContinue()) break;` after propagate() executed even when propagate() returned a
   conflict (true), or is the conflict handled first (false)? *)
Definition poll_after_conflict : bool := %s.
""" % (r["detail"], ", ".join("%s=%s" % kv for kv in sorted(r["anchors"].items())), b(r["stop_atomic"]), b(r["global_atomic"]),
       b(r["atomic"]), r["polls_solve"], r["polls_search"], r["polls_elim"], r["polls_bwdsub"], r["polls_elsewhere"], r["polls_lookahead"], b(r["polls_lookahead"] > 0),
       b(r["poll_after_conflict"]))


def regenerate(repo, out=OUT):
    r = analyse(repo)
    if r["ok"]:
        txt = render(r)
        old = open(out).read() if os.path.exists(out) else None
        if old != txt:
            os.makedirs(os.path.dirname(out), exist_ok=True)
            with open(out, "w") as f:
                f.write(txt)
            r["written"] = True
    return r


if __name__ == "__main__":
    res = regenerate(sys.argv[1] if len(sys.argv) > 1 else os.environ.get("VERIF_REPO", "/repo"))
    print(res)
    sys.exit(0 if res["ok"] else 1)
