#!/usr/bin/env python3
"""Regenerate coq/Pipe/Gen_LexRules.v from src/parsers/smt2new/smt2newlexer.ll.

Pipe/LexStates.v models the lexer's start conditions (INITIAL, STR, PSYM) by hand; this translator ties the
hand-written machine to the .ll text:
  * it checks that the rules which switch start conditions or produce '(' / ')' are the modelled ones
    (comment rule, white-space rule, the push_state rules for '"' and '|', the <STR> and <PSYM> blocks,
    no `%option nodefault`), and reports a broken tie (TranslatorError / exit 3) otherwise;
  * it regenerates the parameters the model reads:
      gen_ws_chars              the characters of the white-space rule  [ \\t\\n]+
      gen_str_escapes           the characters c for which <STR> has a two-character rule  \\\\c
      gen_lone_backslash_echo   true iff <STR> has no rule for a single backslash (flex then ECHOes it to stdout)
      gen_psym_backslash_fatal  true iff <PSYM> has the  \\\\ { ... exit(1); }  rule
"""
import os
import re
import sys

HERE = os.path.dirname(os.path.abspath(__file__))
VERIF = os.path.dirname(HERE)


class TranslatorError(Exception):
    pass


def rules_section(src):
    parts = re.split(r"(?m)^%%\s*$", src)
    if len(parts) < 3:
        raise TranslatorError("smt2newlexer.ll: cannot find the rules section")
    return parts[0], parts[1]


def split_rule(line):
    """pattern, action of a one-line flex rule (pattern ends at the first unescaped, unbracketed, unquoted blank)"""
    i, n = 0, len(line)
    inbr = inq = False
    while i < n:
        ch = line[i]
        if ch == "\\":
            i += 2
            continue
        if inq:
            if ch == '"':
                inq = False
        elif inbr:
            if ch == "]":
                inbr = False
        elif ch == '"':
            inq = True
        elif ch == "[":
            inbr = True
        elif ch in " \t":
            break
        i += 1
    return line[:i], line[i:].strip()


def parse_rules(body):
    init, blocks, cur = [], {}, None
    lines = body.split("\n")
    k = 0
    while k < len(lines):
        raw = lines[k]
        line = raw.strip()
        k += 1
        if not line:
            continue
        m = re.match(r"^<(\w+)>\{\s*$", line)
        if m:
            cur = m.group(1)
            blocks[cur] = []
            continue
        if line == "}" and cur:
            cur = None
            continue
        pat, act = split_rule(line)
        # an action may continue on following lines until braces balance
        while act.count("{") > act.count("}") and k < len(lines):
            act += " " + lines[k].strip()
            k += 1
        (blocks[cur] if cur else init).append((pat, act))
    return init, blocks


CHAR_NAMES = {" ": 32, "\\t": 9, "\\n": 10, "\\r": 13, "\\f": 12, "\\v": 11}


def class_chars(pat):
    """characters of a simple positive class like [ \\t\\n]"""
    m = re.fullmatch(r"\[((?:\\.|[^\\\]])+)\]\+?", pat)
    if not m or m.group(1).startswith("^"):
        raise TranslatorError("white-space rule %r is not a simple character class" % pat)
    out, body, i = [], m.group(1), 0
    while i < len(body):
        if body[i] == "\\":
            tok = body[i:i + 2]
            i += 2
        else:
            tok = body[i]
            i += 1
        if tok not in CHAR_NAMES:
            raise TranslatorError("white-space rule: character %r not understood" % tok)
        out.append(CHAR_NAMES[tok])
    return out


def translate(repo):
    path = os.path.join(repo, "src", "parsers", "smt2new", "smt2newlexer.ll")
    src = open(path, errors="replace").read()
    head, body = rules_section(src)
    if re.search(r"%option\s+nodefault", head):
        raise TranslatorError("%option nodefault: unmatched input no longer ECHOed (the model assumes flex's default rule)")
    for sc in ("STR", "PSYM"):
        if not re.search(r"(?m)^%x\s+" + sc + r"\s*$", head):
            raise TranslatorError("exclusive start condition %s not declared" % sc)
    init, blocks = parse_rules(body)
    ipats = [p for p, _ in init]
    # INITIAL: the rules the model relies on
    if r"\;.*" not in ipats:
        raise TranslatorError(r"comment rule  \;.*  not found")
    ws = [p for p, a in init if a.startswith("//") and "spaces" in a.lower() or p in ("[ \\t\\n]+", "[ \\t\\r\\n]+", "[ \\t\\n\\r]+")]
    if len(ws) != 1:
        raise TranslatorError("white-space rule not found (or ambiguous): %r" % ws)
    ws_chars = class_chars(ws[0])
    if "[()]" not in ipats:
        raise TranslatorError("parenthesis rule [()] not found")
    acts = dict(init)
    if "yy_push_state(STR" not in acts.get('\\"', ""):
        raise TranslatorError(r'rule  \"  { yy_push_state(STR) }  not found')
    if "yy_push_state(PSYM" not in acts.get("\\|", ""):
        raise TranslatorError(r"rule  \|  { yy_push_state(PSYM) }  not found")
    # any other INITIAL rule that can consume one of ; " | ( ) or switch state would invalidate the model
    for p, a in init:
        if p in (r"\;.*", ws[0], "[()]", '\\"', "\\|", "."):
            continue
        if "yy_push_state" in a or "yy_pop_state" in a or "BEGIN" in a:
            raise TranslatorError("INITIAL rule %r switches the start condition; not modelled" % p)
        if p.startswith('"') and p.endswith('"'):
            lit = p[1:-1]
            if any(ch in lit for ch in ';"|()'):
                raise TranslatorError("INITIAL literal rule %r contains a delimiter" % p)
            continue
        # character-class rules (numbers, symbols, keywords): must not admit ; " | ( )
        stripped = re.sub(r"\\.", "", p)
        if any(ch in stripped for ch in ';"|()') and not re.fullmatch(r".*\(\\/\[1-9\]\[0-9\]\*\)\?.*", p):
            # the only modelled use of ( ) in a pattern is grouping in the numeral rule
            if not all(ch in "()" for ch in stripped if ch in ';"|()'):
                raise TranslatorError("INITIAL rule %r may consume a delimiter character" % p)
    # STR block
    if "STR" not in blocks or "PSYM" not in blocks:
        raise TranslatorError("<STR>{...} or <PSYM>{...} block not found")
    spats = [p for p, _ in blocks["STR"]]
    escapes, lone_bs_rule, plain_excl, closes = [], False, None, False
    for p, a in blocks["STR"]:
        if p in ("[ ]", "[\\t]", "\\n"):
            continue
        m = re.fullmatch(r"\\\\(\\.|.)", p)
        if m:
            ch = m.group(1)
            code = {'\\"': 34, "\\\\": 92}.get(ch)
            if code is None:
                raise TranslatorError("<STR> escape rule %r not modelled" % p)
            escapes.append(code)
            continue
        if p == "\\\\":
            lone_bs_rule = True
            if "yy_pop_state" in a or "return" in a:
                raise TranslatorError("<STR> rule for a single backslash ends the literal; not modelled")
            continue
        if p == '\\"':
            closes = "yy_pop_state" in a and "TK_STR" in a
            continue
        if p.startswith("[^"):
            plain_excl = p
            continue
        raise TranslatorError("<STR> rule %r not modelled" % p)
    if sorted(escapes) != [34, 92]:
        raise TranslatorError(r'<STR>: the two-character escapes are no longer exactly \\\" and \\\\ (found codes %s)' % escapes)
    if not closes:
        raise TranslatorError(r'<STR>: rule  \"  { ... yy_pop_state; return TK_STR; }  not found')
    if plain_excl not in ('[^\\\\\\n\\"]',):
        raise TranslatorError("<STR>: ordinary-character class is %r, modelled: [^\\\\\\n\\\"]" % plain_excl)
    # PSYM block
    psym_bs_fatal, pcloses = False, False
    for p, a in blocks["PSYM"]:
        if p in ("[ ]", "[\\t]", "\\n"):
            continue
        if p == "\\|":
            pcloses = "yy_pop_state" in a and "TK_QSYM" in a
            continue
        if p == "\\\\":
            psym_bs_fatal = "exit" in a
            continue
        if p == "[^ \\t\\n\\\\\\|]":
            continue
        raise TranslatorError("<PSYM> rule %r not modelled" % p)
    if not pcloses:
        raise TranslatorError(r"<PSYM>: rule  \|  { ... yy_pop_state; return TK_QSYM; }  not found")
    out = []
    out.append("(* GENERATED by translate/lexer_states.py from src/parsers/smt2new/smt2newlexer.ll.  Do not edit. *)")
    out.append("From Coq Require Import List Ascii Bool.\nImport ListNotations.\n")
    out.append("(* white-space rule %s *)" % ws[0].replace('"', "DQ"))
    out.append("Definition gen_ws_chars : list ascii := [%s]." % "; ".join('"%03d"%%char' % c for c in ws_chars))
    out.append("\n(* <STR> two-character escape rules: backslash followed by one of these *)")
    out.append("Definition gen_str_escapes : list ascii := [%s]." % "; ".join('"%03d"%%char' % c for c in sorted(escapes)))
    out.append("\n(* <STR> has %s rule for a single backslash: flex's default rule %s *)" % (
        "a" if lone_bs_rule else "no", "is not reached" if lone_bs_rule else "ECHOes it to stdout while lexing"))
    out.append("Definition gen_lone_backslash_echo : bool := %s." % ("false" if lone_bs_rule else "true"))
    out.append("\n(* <PSYM> backslash rule calls exit(1) *)")
    out.append("Definition gen_psym_backslash_fatal : bool := %s." % ("true" if psym_bs_fatal else "false"))
    return "\n".join(out) + "\n"


def regenerate(repo="/repo", out=None, write=True):
    out = out or os.path.join(VERIF, "coq", "Pipe", "Gen_LexRules.v")
    txt = translate(repo)
    old = open(out).read() if os.path.exists(out) else None
    if old != txt and write:
        with open(out, "w") as f:
            f.write(txt)
    return old != txt, txt


if __name__ == "__main__":
    repo, out, write = "/repo", None, True
    a = sys.argv[1:]
    while a:
        x = a.pop(0)
        if x == "--repo":
            repo = a.pop(0)
        elif x == "--out":
            out = a.pop(0)
        elif x == "--check":
            write = False
    try:
        ch, txt = regenerate(repo, out, write)
        print("Gen_LexRules.v %s" % ("changed" if ch else "unchanged"))
    except TranslatorError as e:
        print("BROKEN TIE: " + str(e))
        sys.exit(3)
