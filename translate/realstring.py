#!/usr/bin/env python3
"""Regenerate coq/Num/Gen_RealString.v from the automaton in isRealString (src/common/StringConv.h).

The function is recognised structurally: an enum of states, `t_State state = S0`, a loop that starts at
index 1 when str[0] == '-', a switch whose cases are if / else-if chains over
    str[i] == '<c>'   |   isDigit(str[i])   |   isPosDig(str[i])
with bodies `state = Sx;` or `unexpectedSymbol = true;`, and a final switch returning true / false per
state.  Anything else raises TranslateError (the check reports a broken tie)."""
import os
import re
import sys


class TranslateError(Exception):
    pass


def extract_function(text, name):
    m = re.search(r"isRealString\s*\(\s*char const \*\s*str\s*\)\s*\{", text)
    if not m:
        raise TranslateError("isRealString(char const *str) not found")
    i = m.end()
    depth = 1
    while depth and i < len(text):
        depth += {"{": 1, "}": -1}.get(text[i], 0)
        i += 1
    return text[m.end():i - 1]


COND = [
    (re.compile(r"^str\[i\]\s*==\s*'(\\?.)'$"), lambda m: "is_char %d c" % ord(m.group(1)[-1])),
    (re.compile(r"^isDigit\(str\[i\]\)$"), lambda m: "is_digit c"),
    (re.compile(r"^isPosDig\(str\[i\]\)$"), lambda m: "is_posdig c"),
]


def cond(c):
    c = c.strip()
    for rx, f in COND:
        m = rx.match(c)
        if m:
            return f(m)
    raise TranslateError("unrecognised condition: " + c)


def translate(text):
    body = extract_function(text, "isRealString")
    body = re.sub(r"//[^\n]*", "", body)
    m = re.search(r"if \(str\[0\] == '\\0'\) return (false|true);", body)
    if not m:
        raise TranslateError("empty-string test not found")
    empty_res = m.group(1)
    m = re.search(r"enum t_State \{([^}]*)\}", body)
    if not m:
        raise TranslateError("state enum not found")
    states = [s.strip() for s in m.group(1).split(",") if s.strip()]
    m = re.search(r"t_State state = (\w+);", body)
    if not m or m.group(1) not in states:
        raise TranslateError("initial state not found")
    start = m.group(1)
    m = re.search(r"for \(int i = str\[0\] == '-' \? 1 : 0; str\[i\] != '\\0' and not unexpectedSymbol; i\+\+\) \{\s*switch \(state\) \{", body)
    if not m:
        raise TranslateError("scanning loop not recognised")
    # the first switch: up to the matching brace
    i = m.end()
    depth = 1
    j = i
    while depth:
        depth += {"{": 1, "}": -1}.get(body[j], 0)
        j += 1
    sw = body[i:j - 1]
    rest = body[j:]
    trans = {}
    pending = []
    pos = 0
    tok = re.compile(r"\s*case (\w+):")
    while True:
        m = tok.match(sw, pos)
        if not m:
            if sw[pos:].strip():
                raise TranslateError("unrecognised text in switch: " + sw[pos:pos + 60])
            break
        pending.append(m.group(1))
        pos = m.end()
        if tok.match(sw, pos):
            continue
        k = sw.find("break;", pos)
        if k < 0:
            raise TranslateError("case without break")
        chain = sw[pos:k].strip()
        pos = k + len("break;")
        arms = []
        parts = re.split(r"\belse\b", chain)
        for p in parts:
            p = p.strip()
            mm = re.match(r"^if \((.*?)\)\s*(state = (\w+)|unexpectedSymbol = true);$", p, re.S)
            if mm:
                arms.append((cond(mm.group(1)), mm.group(3)))
                continue
            mm = re.match(r"^(state = (\w+)|unexpectedSymbol = true);$", p)
            if mm:
                arms.append((None, mm.group(2)))
                continue
            raise TranslateError("unrecognised arm: " + p)
        if arms[-1][0] is not None:
            arms.append((None, "=stay"))
        for s in pending:
            if s in trans:
                raise TranslateError("state twice: " + s)
            trans[s] = arms
        pending = []
    if set(trans) != set(states):
        raise TranslateError("states without transitions: %s" % (set(states) ^ set(trans)))
    if "if (unexpectedSymbol) return false;" not in rest:
        raise TranslateError("unexpectedSymbol result not found")
    m = re.search(r"switch \(state\) \{(.*?)\}", rest, re.S)
    if not m:
        raise TranslateError("final switch not found")
    acc = {}
    pend = []
    for line in m.group(1).split("\n"):
        line = line.strip()
        mm = re.match(r"case (\w+):$", line)
        if mm:
            pend.append(mm.group(1))
            continue
        mm = re.match(r"return (true|false);$", line)
        if mm:
            for s in pend:
                acc[s] = mm.group(1)
            pend = []
            continue
        if line:
            raise TranslateError("unrecognised line in final switch: " + line)
    if set(acc) != set(states):
        raise TranslateError("final switch does not cover all states")

    def arm_text(s, arms):
        out = ""
        for c, t in arms:
            tgt = "None" if t is None else ("Some %s" % (s if t == "=stay" else "R" + t))
            if c is None:
                out += tgt
                break
            out += "if %s then %s else " % (c, tgt)
        return out

    o = ["(* GENERATED by translate/realstring.py from src/common/StringConv.h (isRealString) - do not edit. *)",
         "From Coq Require Import NArith Ascii.", "From OsmtV.Num Require Import Chars.", "",
         "Inductive rs_state := " + " | ".join("R" + s for s in states) + ".", "",
         "(* None = unexpectedSymbol *)",
         "Definition rs_step (s : rs_state) (c : ascii) : option rs_state :=", "  match s with"]
    for s in states:
        o.append("  | R%s => %s" % (s, arm_text("R" + s, trans[s])))
    o += ["  end.", "", "Definition rs_accept (s : rs_state) : bool :=", "  match s with"]
    for s in states:
        o.append("  | R%s => %s" % (s, acc[s]))
    o += ["  end.", "", "Definition rs_start : rs_state := R%s." % start,
          "Definition rs_empty_result : bool := %s." % empty_res, ""]
    return "\n".join(o)


def main(repo, out):
    text = open(os.path.join(repo, "src/common/StringConv.h")).read()
    gen = translate(text)
    old = open(out).read() if os.path.exists(out) else None
    if old != gen:
        with open(out, "w") as f:
            f.write(gen)
        return True
    return False


if __name__ == "__main__":
    repo = sys.argv[1] if len(sys.argv) > 1 else "/repo"
    out = sys.argv[2] if len(sys.argv) > 2 else os.path.join(os.path.dirname(os.path.abspath(__file__)), "..", "coq", "Num", "Gen_RealString.v")
    print("changed" if main(repo, out) else "unchanged")
