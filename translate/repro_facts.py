#!/usr/bin/env python3
"""C23 translator: scans /repo/src for every syntactic occurrence of a primitive through which the address-space
layout or another run-to-run varying quantity can reach the program's behaviour, and regenerates

    coq/Repro/Gen_ReproFacts.v   the list of facts (file, line, function, identifier, kind, observed attributes)
    coq/Repro/Gen_Random.v       the constants of drand/irand (src/common/Random.h and its textual copies) and the
                                 default seed (SMTConfig::getRandomSeed)

The translator only OBSERVES (kind + attributes); the verdict benign / leaking is computed in Coq
(Repro/ReproFacts.v: classify) and the obligation `forallb fact_ok facts = true` is proved by vm_compute over the
regenerated list (Properties_C23.v: scan_has_no_unexplained_leak).

What is looked for (all .cc/.h/.hpp/.C/.ll/.yy files under src):
  containers ordered by a pointer key (std::set/map/multiset/multimap/priority_queue<T*...>), std::less/greater<T*>,
  containers hashed by a pointer key (std::unordered_*<T*...>, minisat Map<T*...>), std::hash<T*>; for every declared
  container the uses of the declared name: membership only / iterated / order query / escapes;
  sort-like calls whose element type is a pointer (or cannot be resolved) or whose comparator compares addresses;
  pointer -> integer conversions (reinterpret_cast<integer>, (size_t)p ..., unions overlaying a pointer with a number),
  printing of pointers (%p, << (void*)p);
  entropy roots (time, clock, getrusage, gettimeofday, clock_gettime, chrono ::now, getpid, random_device, thread ids,
  /dev/urandom ...) followed by a small taint propagation (assignments, out-parameters, returns, arguments of functions
  defined in src, constructor arguments of classes whose constructor reads a root) down to the statements that consume
  the value: output on stderr / stdout / another stream, comparison, anything else;
  libc rand()/srand() and <random> engines with the way they are seeded; getenv; thread creation.
Judgement calls live in translate/repro_allowlist.txt (kind | function | identifier | attribute | justification), nowhere else.
`python3 translate/repro_facts.py --list` prints every fact with its source line and the stale allowlist entries.
"""
import os
import re
import sys

VERIF = os.path.dirname(os.path.dirname(os.path.abspath(__file__)))
REPO = os.environ.get("VERIF_REPO", "/repo")
SRC = os.path.join(REPO, "src")
OUT_FACTS = os.path.join(VERIF, "coq", "Repro", "Gen_ReproFacts.v")
OUT_RANDOM = os.path.join(VERIF, "coq", "Repro", "Gen_Random.v")
ALLOW = os.path.join(VERIF, "translate", "repro_allowlist.txt")
EXTS = (".cc", ".h", ".hpp", ".C", ".cpp", ".ll", ".yy")
HOOK_MACRO = "OPENSMT_VERIF"


class TranslateError(Exception):
    pass


# ------------------------------------------------------------------------------------------------
# lexical layer
# ------------------------------------------------------------------------------------------------

def blank(s):
    return "".join(c if c == "\n" else " " for c in s)


def strip_source(raw):
    """(code, bare): code = comments blanked; bare = comments and the contents of string/char literals blanked.
    Both have exactly the length and line structure of raw."""
    code, bare = [], []
    i, n = 0, len(raw)
    while i < n:
        c = raw[i]
        c2 = raw[i:i + 2]
        if c2 == "//":
            j = raw.find("\n", i)
            j = n if j < 0 else j
            # line continuation in a // comment is not used in this code base
            code.append(blank(raw[i:j])); bare.append(blank(raw[i:j])); i = j
        elif c2 == "/*":
            j = raw.find("*/", i + 2)
            j = n if j < 0 else j + 2
            code.append(blank(raw[i:j])); bare.append(blank(raw[i:j])); i = j
        elif c == '"':
            if i >= 1 and raw[i - 1] == "R" and (i < 2 or not (raw[i - 2].isalnum() or raw[i - 2] == "_")):
                m = re.match(r'"([^()\\ ]{0,16})\(', raw[i:])
                if m:
                    end = raw.find(")" + m.group(1) + '"', i)
                    j = n if end < 0 else end + len(m.group(1)) + 2
                    code.append(raw[i:j]); bare.append('"' + blank(raw[i + 1:j - 1]) + '"'); i = j
                    continue
            j = i + 1
            while j < n and raw[j] != '"' and raw[j] != "\n":
                j += 2 if raw[j] == "\\" else 1
            j = min(j + 1, n)
            code.append(raw[i:j]); bare.append('"' + blank(raw[i + 1:j - 1]) + ('"' if j - 1 > i else "")); i = j
        elif c == "'":
            # character literal (not a digit separator)
            if i >= 1 and (raw[i - 1].isalnum()) and re.match(r"'[0-9a-fA-F]", raw[i:]) and re.search(r"[0-9]$", raw[max(0, i - 1):i]):
                code.append(c); bare.append(c); i += 1
                continue
            j = i + 1
            while j < n and raw[j] != "'" and raw[j] != "\n":
                j += 2 if raw[j] == "\\" else 1
            j = min(j + 1, n)
            code.append(raw[i:j]); bare.append("'" + blank(raw[i + 1:j - 1]) + ("'" if j - 1 > i else "")); i = j
        else:
            code.append(c); bare.append(c); i += 1
    code, bare = "".join(code), "".join(bare)
    if len(code) != len(raw) or len(bare) != len(raw):
        raise TranslateError("internal: stripping changed the length")
    return code, bare


CONTROL = {"if", "for", "while", "switch", "catch", "do", "else", "return", "sizeof", "new", "delete", "throw", "case",
           "static_assert", "decltype", "alignof", "typeid", "requires", "noexcept", "assert", "defined"}


class Func:
    __slots__ = ("name", "head", "body_start", "body_end", "cls", "file")

    def __init__(self, name, head, bs, be, cls, file):
        self.name, self.head, self.body_start, self.body_end, self.cls, self.file = name, head, bs, be, cls, file

    @property
    def qual(self):
        if "::" in self.name or not self.cls:
            return self.name
        return self.cls + "::" + self.name


class Source:
    def __init__(self, rel, raw):
        self.rel = rel
        self.raw = raw
        self.code, self.bare = strip_source(raw)
        self.line_starts = [0] + [m.end() for m in re.finditer("\n", raw)]
        self._guards()
        self._structure()

    def line_of(self, pos):
        lo, hi = 0, len(self.line_starts) - 1
        while lo < hi:
            mid = (lo + hi + 1) // 2
            if self.line_starts[mid] <= pos:
                lo = mid
            else:
                hi = mid - 1
        return lo + 1

    # -- preprocessor conditions per line --
    def _guards(self):
        lines = self.code.split("\n")
        stack, per_line = [], []
        pending_guard = None
        for idx, ln in enumerate(lines):
            m = re.match(r"\s*#\s*(ifdef|ifndef|if|elif|else|endif)\b(.*)", ln)
            if m:
                d, rest = m.group(1), m.group(2).strip()
                if d == "ifdef":
                    stack.append(rest.split()[0] if rest else "?")
                elif d == "ifndef":
                    mac = rest.split()[0] if rest else "?"
                    # include guard: #ifndef X immediately followed by #define X
                    nxt = lines[idx + 1] if idx + 1 < len(lines) else ""
                    if re.match(r"\s*#\s*define\s+" + re.escape(mac) + r"\b", nxt):
                        stack.append("")
                    else:
                        stack.append("!" + mac)
                elif d == "if":
                    m2 = re.fullmatch(r"defined\s*\(?\s*(\w+)\s*\)?", rest)
                    m3 = re.fullmatch(r"!\s*defined\s*\(?\s*(\w+)\s*\)?", rest)
                    stack.append(m2.group(1) if m2 else ("!" + m3.group(1) if m3 else "(" + rest + ")"))
                elif d == "elif":
                    if stack:
                        prev = stack.pop()
                        stack.append("ELSE_OF:" + prev.replace("ELSE_OF:", ""))
                elif d == "else":
                    if stack:
                        prev = stack.pop()
                        if prev == "":
                            stack.append("")
                        elif prev.startswith("!") and re.fullmatch(r"!\w+", prev):
                            stack.append(prev[1:])
                        elif re.fullmatch(r"\w+", prev):
                            stack.append("!" + prev)
                        else:
                            stack.append("ELSE_OF:" + prev.replace("ELSE_OF:", ""))
                elif d == "endif":
                    if stack:
                        stack.pop()
            per_line.append(tuple(g for g in stack if g))
        self.guards = per_line

    def guards_at(self, pos):
        return self.guards[self.line_of(pos) - 1]

    # -- functions and classes (brace structure) --
    def _structure(self):
        txt = self.bare
        # blank preprocessor lines so that braces in macros do not confuse the structure
        txt = re.sub(r"(?m)^[ \t]*#(?:[^\n\\]|\\\n|\\.)*", lambda m: blank(m.group(0)), txt)
        self.struct_txt = txt
        self.funcs, self.classes = [], []
        stack = []   # (kind, name, open_pos, head_start)
        last_break = 0
        i, n = 0, len(txt)
        paren = 0
        while i < n:
            c = txt[i]
            if c == "(":
                paren += 1
            elif c == ")":
                paren = max(0, paren - 1)
            elif c == ";" and paren == 0:
                last_break = i + 1
            elif c == "{":
                head = txt[last_break:i]
                kind, name = self._classify_head(head, stack)
                stack.append((kind, name, i, last_break, paren))
                paren = 0
                last_break = i + 1
            elif c == "}":
                if stack:
                    kind, name, op, hs, saved = stack.pop()
                    paren = saved
                    cls = next((nm for k, nm, *_ in reversed(stack) if k == "class"), None)
                    if kind == "func":
                        self.funcs.append(Func(name, hs, op, i, cls, self))
                    elif kind == "class":
                        self.classes.append((name, hs, op, i))
                last_break = i + 1
            i += 1
        self.funcs.sort(key=lambda f: f.body_start)

    @staticmethod
    def _classify_head(head, stack):
        h = head.strip()
        inside_func = any(k == "func" for k, *_ in stack)
        if inside_func:
            return "block", None
        if re.search(r"\bnamespace\b", h) and "(" not in h:
            return "ns", None
        if re.match(r'extern\s*"', h):
            return "ns", None
        hh = re.sub(r"\btemplate\s*<[^{}]*?>\s*(?=(class|struct|union)\b)", "", h, flags=re.S)
        m = re.match(r"(?:typedef\s+)?(?:class|struct|union)\s+(?:\[\[[^\]]*\]\]\s*)?([A-Za-z_]\w*)", hh)
        if m and "(" not in hh.split(":")[0]:
            return "class", m.group(1)
        if re.match(r"(?:typedef\s+)?enum\b", hh):
            return "block", None
        if "(" in h:
            # function definition: the name is the identifier before the first top-level '('
            depth = 0
            for j, ch in enumerate(h):
                if ch == "<":
                    depth += 1
                elif ch == ">":
                    depth = max(0, depth - 1)
                elif ch == "(" :
                    pre = h[:j].rstrip()
                    m2 = re.search(r"((?:[A-Za-z_~]\w*\s*(?:<[^()]*>)?\s*::\s*)*(?:operator\s*(?:\(\)|[^\s(]+)|~?[A-Za-z_]\w*))$", pre)
                    if m2:
                        nm = re.sub(r"\s+", "", m2.group(1))
                        if nm.split("::")[-1] in CONTROL:
                            return "block", None
                        return "func", nm
                    break
            return "block", None
        if h.endswith("=") or h.endswith(",") or h.endswith("(") or h.endswith("return") or not h:
            return "block", None
        return "block", None

    def func_at(self, pos):
        import bisect
        if not hasattr(self, "_fheads"):
            self._fsorted = sorted(self.funcs, key=lambda f: f.head)
            self._fheads = [f.head for f in self._fsorted]
        i = bisect.bisect_right(self._fheads, pos) - 1
        best = None
        # functions do not nest (blocks inside functions are not functions), local classes are rare: look back a few entries
        k = i
        while k >= 0 and k >= i - 6:
            f = self._fsorted[k]
            if f.head <= pos <= f.body_end:
                if best is None or f.body_start >= best.body_start:
                    best = f
            k -= 1
        return best

    def class_at(self, pos):
        best = None
        for c in self.classes:
            if c[2] <= pos <= c[3]:
                if best is None or c[2] >= best[2]:
                    best = c
        return best

    def statement_at(self, pos, end=None):
        """(start, end) of the statement containing [pos, end) in bare text: back to the previous ; { } at paren depth 0,
        forward to the next ; at paren depth 0 (or the { that opens a block after a control head)."""
        t = self.struct_txt
        end = pos if end is None else end
        i, depth = pos - 1, 0
        while i >= 0:
            ch = t[i]
            if ch == ")":
                depth += 1
            elif ch == "(":
                if depth == 0:
                    # inside a parenthesis (e.g. for-header / condition): keep going back to the statement start
                    pass
                else:
                    depth -= 1
            elif ch in ";{}" and depth == 0:
                # a ';' inside a for(...) header: look whether we are inside parentheses
                if ch == ";" and self._inside_parens(i):
                    i -= 1
                    continue
                break
            i -= 1
        start = i + 1
        # a statement guarded by  if (...) / while (...) / for (...) / else : the guarded statement starts after the head
        while True:
            mh = re.match(r"\s*(?:else\s+)?(if|while|for|switch)\s*\(", t[start:pos])
            if mh:
                rp = match_paren(t, start + mh.end() - 1)
                if 0 < rp < pos:
                    start = rp + 1
                    continue
            mh = re.match(r"\s*(else|do)\b(?!\s*if\b)", t[start:pos])
            if mh and start + mh.end() <= pos:
                start += mh.end()
                continue
            break
        j, depth = end, 0
        n = len(t)
        while j < n:
            ch = t[j]
            if ch == "(":
                depth += 1
            elif ch == ")":
                depth -= 1
            elif ch == ";" and depth <= 0:
                if self._inside_parens(j):
                    j += 1
                    continue
                break
            elif ch == "{" and depth <= 0:
                # lambda bodies / initialiser lists inside an expression: skip the balanced block when preceded by ) ] = ,
                k = j - 1
                while k >= 0 and t[k] in " \t\n":
                    k -= 1
                head = t[start:j]
                if re.match(r"\s*(if|for|while|switch|else|do|try)\b", head) or re.search(r"\)\s*(const|noexcept|override|final|\s)*$", head) and not re.search(r"[=,(]\s*\[[^\]]*\]\s*\([^)]*\)\s*(mutable\s*)?(->\s*[\w:<>]+\s*)?$", head):
                    break
                b, k2 = 0, j
                while k2 < n:
                    if t[k2] == "{":
                        b += 1
                    elif t[k2] == "}":
                        b -= 1
                        if b == 0:
                            break
                    k2 += 1
                j = k2
            elif ch == "}" and depth <= 0:
                break
            j += 1
        return start, min(j + 1, n)

    def _inside_parens(self, pos):
        """is pos inside an unclosed '(' of the current function body / file (cheap backward scan, bounded)?"""
        t = self.struct_txt
        depth, i, lim = 0, pos - 1, max(0, pos - 600)
        while i >= lim:
            ch = t[i]
            if ch == ")":
                depth += 1
            elif ch == "(":
                if depth == 0:
                    return True
                depth -= 1
            elif ch in "{}":
                return False
            i -= 1
        return False


def load_sources():
    out = []
    for d, _, fs in os.walk(SRC):
        for f in fs:
            if f.endswith(EXTS):
                p = os.path.join(d, f)
                rel = os.path.relpath(p, REPO)
                out.append(Source(rel, open(p, errors="replace").read()))
    out.sort(key=lambda s: s.rel)
    if len(out) < 50:
        raise TranslateError("only %d source files under %s" % (len(out), SRC))
    return out


# ------------------------------------------------------------------------------------------------
# build configuration: which macros are defined in the default (and the hooked) build
# ------------------------------------------------------------------------------------------------

BUILTIN_ON = {"__linux__", "__GNUC__", "__cplusplus", "NDEBUG", "__x86_64__", "__unix__", HOOK_MACRO}


def macro_state(sources):
    """returns function is_off(macro) -> True (certainly undefined in the default build) / False"""
    cm = ""
    for d, _, fs in os.walk(REPO):
        if "/.git" in d or "/_vbuild" in d or "/build" in d.replace(REPO, ""):
            continue
        for f in fs:
            if f == "CMakeLists.txt" or f.endswith(".cmake"):
                cm += open(os.path.join(d, f), errors="replace").read() + "\n"
    options = {m.group(1): m.group(2).upper() for m in re.finditer(r"option\s*\(\s*(\w+)\s+\"[^\"]*\"\s+(\w+)\s*\)", cm)}
    defined_by_cmake = set(re.findall(r"-D\s*(\w+)", cm))
    # add_definitions(-DX) inside if(X) ... endif() with option X OFF is off
    cond_defs = {}
    for m in re.finditer(r"if\s*\(\s*(\w+)\s*\)(.*?)endif\s*\(", cm, re.S):
        for d in re.findall(r"-D\s*(\w+)", m.group(2)):
            cond_defs.setdefault(d, set()).add(m.group(1))
    defined_in_src = set()
    for s in sources:
        defined_in_src.update(re.findall(r"(?m)^\s*#\s*define\s+(\w+)", s.code))

    def is_off(mac):
        if mac in BUILTIN_ON or mac.startswith("__"):
            return False
        if mac in defined_in_src:
            return False
        if mac in defined_by_cmake:
            conds = cond_defs.get(mac)
            if conds and all(options.get(c, "ON") == "OFF" for c in conds):
                return True
            return False
        return True     # never defined anywhere: off
    return is_off, options


# ------------------------------------------------------------------------------------------------
# helpers on C++ text
# ------------------------------------------------------------------------------------------------

def match_angle(t, i):
    """t[i] == '<': returns the index of the matching '>' (or -1) — template argument lists only"""
    depth, j, n = 0, i, len(t)
    par = 0
    while j < n:
        ch = t[j]
        if ch == "(":
            par += 1
        elif ch == ")":
            par -= 1
            if par < 0:
                return -1
        elif ch == "<" and par == 0:
            depth += 1
        elif ch == ">" and par == 0:
            if j > 0 and t[j - 1] == "-":
                j += 1
                continue
            depth -= 1
            if depth == 0:
                return j
        elif ch in ";{}" and par == 0:
            return -1
        j += 1
    return -1


def split_top(s, sep=","):
    out, depth, cur = [], 0, []
    for ch in s:
        if ch in "<([{":
            depth += 1
        elif ch in ">)]}":
            depth -= 1
        if ch == sep and depth == 0:
            out.append("".join(cur)); cur = []
        else:
            cur.append(ch)
    out.append("".join(cur))
    return [x.strip() for x in out]


def match_paren(t, i):
    depth, j, n = 0, i, len(t)
    while j < n:
        if t[j] == "(":
            depth += 1
        elif t[j] == ")":
            depth -= 1
            if depth == 0:
                return j
        j += 1
    return -1


def is_pointer_type(ty, aliases, depth=0):
    """does ordering / hashing a value of this type depend on an address?  T*, smart pointers, pair/tuple/array with such a
    component, and typedef / using aliases of these (aliases: name -> aliased type text)"""
    ty = re.sub(r"\bconst\b|\bvolatile\b|\btypename\b", " ", ty).strip()
    ty = re.sub(r"\s*&+$", "", ty).strip()
    if ty.endswith("*"):
        return True
    if re.match(r"(std\s*::\s*)?(unique_ptr|shared_ptr|weak_ptr)\s*<", ty):
        return True
    m = re.match(r"(?:std\s*::\s*)?(pair|tuple|array)\s*<", ty)
    if m:
        lt = ty.index("<")
        gt = match_angle(ty + ";", lt)
        if gt > 0:
            return any(is_pointer_type(c, aliases, depth) for c in split_top(ty[lt + 1:gt]))
    if re.fullmatch(r"[\w:\s]+", ty) and depth < 6:
        base = ty.split("::")[-1].strip()
        if base in aliases and aliases[base].strip() != ty:
            return is_pointer_type(aliases[base], aliases, depth + 1)
    return False


IDENT = r"[A-Za-z_]\w*"


# ------------------------------------------------------------------------------------------------
# fact record
# ------------------------------------------------------------------------------------------------

class Fact:
    def __init__(self, src, pos, kind, ident, attrs, note=""):
        self.file = src.rel
        self.line = src.line_of(pos)
        f = src.func_at(pos)
        c = src.class_at(pos)
        self.func = f.qual if f else (c[0] if c else "(file scope)")
        self.ident = ident
        self.kind = kind
        self.attrs = list(attrs)
        self.note = note
        self.src, self.pos = src, pos

    def key(self):
        return "%s/%s" % (self.func, self.ident)


class Scanner:
    def __init__(self):
        self.sources = load_sources()
        self.by_rel = {s.rel: s for s in self.sources}
        self.is_off, self.options = macro_state(self.sources)
        self.facts = []
        self.notes = []
        self.ptr_typedefs = self._pointer_typedefs()
        self.func_index = {}
        for s in self.sources:
            for f in s.funcs:
                self.func_index.setdefault(f.name.split("::")[-1], []).append(f)
        self.stats = {}
        if not re.search(r"if\s*\(\s*PARALLEL\s*\)\s*add_subdirectory\s*\(\s*parallel\s*\)", open(os.path.join(SRC, "CMakeLists.txt")).read()):
            raise TranslateError("src/CMakeLists.txt no longer adds src/parallel only under if (PARALLEL)")
        if self.options.get("PARALLEL", "OFF") != "OFF":
            raise TranslateError("the PARALLEL option is no longer OFF by default")

    def _pointer_typedefs(self):
        """alias name -> aliased type (typedef T name; / using name = T;), non-template aliases only"""
        out = {}
        for s in self.sources:
            for m in re.finditer(r"\btypedef\s+([^;{}()]*?[\w>*&])\s*\b(" + IDENT + r")\s*;", s.bare):
                out.setdefault(m.group(2), m.group(1).strip())
            for m in re.finditer(r"(?<!template)\busing\s+(" + IDENT + r")\s*=\s*([^;{}]*?)\s*;", s.bare):
                if not re.search(r"template\s*<[^;]*$", s.bare[max(0, m.start() - 80):m.start()]):
                    out.setdefault(m.group(1), m.group(2).strip())
        return out

    # -- generic attributes --
    def common_attrs(self, src, pos):
        a = []
        if src.rel.startswith("src/parallel/"):
            a.append("AOutOfBinary")
        gs = src.guards_at(pos)
        for g in gs:
            if g == HOOK_MACRO:
                a.append("AHookGuard")
            elif re.fullmatch(r"\w+", g) and self.is_off(g):
                a.append("ACompiledOut")
            elif g in ("(0)",):
                a.append("ACompiledOut")
            elif re.fullmatch(r"!\w+", g) and g[1:] in BUILTIN_ON:
                a.append("ACompiledOut")
            elif g.startswith("ELSE_OF:") and g[8:] in BUILTIN_ON:
                a.append("ACompiledOut")
        if self.dead_code(src, pos):
            a.append("ADeadCode")
        return sorted(set(a))

    def dead_code(self, src, pos):
        """the enclosing class (or free function) is referenced nowhere in src outside its own definition"""
        c = src.class_at(pos)
        f = src.func_at(pos)
        if f and self.func_unreachable(f.name.split("::")[-1]):
            return True
        if c:
            name, span = c[0], (c[1], c[3])
        elif f and "::" not in f.name:
            name, span = f.name, (f.head, f.body_end)
        else:
            return False
        if name in ("main",) or name.startswith("operator") or len(name) < 4:
            return False
        ck = (src.rel, name, span)
        if not hasattr(self, "_dead"):
            self._dead = {}
        if ck in self._dead:
            return self._dead[ck]
        self._dead[ck] = self._dead_uncached(src, name, span)
        return self._dead[ck]

    def func_unreachable(self, simple, _stack=None):
        """every call site of (any function named) `simple` is compiled out in the default build or lies in a function
        that is itself unreachable in this sense"""
        if not hasattr(self, "_unreach"):
            self._unreach = {}
        if simple in self._unreach:
            return self._unreach[simple]
        if len(simple) < 4 or simple.startswith(("operator", "~")) or simple in ("main",) or simple not in self.func_index:
            return False
        if any(g.cls == simple or g.name.split("::")[-2:-1] == [simple] for g in self.func_index[simple]):
            return False       # constructors are called implicitly
        _stack = (_stack or ()) + (simple,)
        rx = re.compile(r"(?<![\w~])" + re.escape(simple) + r"\s*\(")
        sites = 0
        for s in self.sources:
            if simple not in s.bare:
                continue
            for m in rx.finditer(s.bare):
                g = s.func_at(m.start())
                if g is None:
                    continue       # declaration in a class body / at file scope
                if g.head <= m.start() < g.body_start and g.name.split("::")[-1] == simple:
                    continue       # definition head
                sites += 1
                gs = s.guards_at(m.start())
                if any((re.fullmatch(r"\w+", x) and x != HOOK_MACRO and self.is_off(x)) for x in gs):
                    continue
                gn = g.name.split("::")[-1]
                if gn in _stack:
                    continue
                if self.func_unreachable(gn, _stack):
                    continue
                if len(_stack) == 1:
                    self._unreach[simple] = False
                return False
        res = sites > 0
        if len(_stack) == 1:
            self._unreach[simple] = res
        return res

    def _dead_uncached(self, src, name, span):
        rx = re.compile(r"\b" + re.escape(name) + r"\b")
        for s in self.sources:
            for m in rx.finditer(s.bare):
                if s is src and span[0] <= m.start() <= span[1]:
                    continue
                return False
        return True

    def add(self, src, pos, kind, ident, attrs, note=""):
        self.facts.append(Fact(src, pos, kind, ident, sorted(set(list(attrs) + self.common_attrs(src, pos))), note))

    # ---------------------------------------------------------------------------------------
    # A. containers keyed by pointers, std::less/hash over pointers
    # ---------------------------------------------------------------------------------------
    ORDERED = {"set", "multiset", "map", "multimap", "priority_queue"}
    HASHED = {"unordered_set", "unordered_map", "unordered_multiset", "unordered_multimap", "Map", "VecMap", "VecKeyMap", "MapWithKeys"}
    FUNCTORS = {"less": "KPtrOrderFunctor", "greater": "KPtrOrderFunctor", "less_equal": "KPtrOrderFunctor",
                "greater_equal": "KPtrOrderFunctor", "hash": "KPtrHashFunctor"}
    MEMBERSHIP = {"find", "count", "contains", "insert", "emplace", "erase", "clear", "at", "end", "cend", "size", "empty", "reserve",
                  "try_emplace", "insert_or_assign", "has", "peek", "remove", "swap", "max_size", "emplace_hint", "rehash", "bucket_count",
                  "growTo", "elems", "getOrNull", "getSize"}
    ITERATION = {"begin", "cbegin", "rbegin", "rend", "crbegin", "crend", "getKeys", "getKeysAndVals", "getKeysAndValsPtrs", "top", "pop",
                 "front", "back", "extract", "merge", "bucket", "key_comp", "value_comp"}
    ORDERQ = {"lower_bound", "upper_bound", "equal_range"}

    CONTAINER_RX = re.compile(r"\b((?:std\s*::\s*)?)(set|multiset|map|multimap|priority_queue|unordered_set|unordered_map|unordered_multiset|"
                              r"unordered_multimap|Map|VecMap|VecKeyMap|MapWithKeys|less|greater|less_equal|greater_equal|hash)\s*<")

    def scan_containers(self):
        rx = re.compile(r"\b((?:std\s*::\s*)?)(set|multiset|map|multimap|priority_queue|unordered_set|unordered_map|unordered_multiset|"
                        r"unordered_multimap|Map|VecMap|VecKeyMap|MapWithKeys|less|greater|less_equal|greater_equal|hash)\s*<")
        examined = 0
        for s in self.sources:
            t = s.bare
            for m in rx.finditer(t):
                name = m.group(2)
                if m.start() > 0 and (t[m.start() - 1].isalnum() or t[m.start() - 1] in "_.>"):
                    continue
                if name in ("set", "map", "less", "greater", "hash", "multiset", "multimap", "priority_queue", "less_equal", "greater_equal") and \
                        not m.group(1) and not re.search(r"using\s+namespace\s+std|using\s+std::" + name, s.bare):
                    continue
                lt = m.end() - 1
                gt = match_angle(t, lt)
                if gt < 0:
                    continue
                args = split_top(t[lt + 1:gt])
                if not args or not args[0]:
                    continue
                examined += 1
                key = args[0]
                if not is_pointer_type(key, self.ptr_typedefs):
                    continue
                if name in self.FUNCTORS:
                    self.add(s, m.start(), self.FUNCTORS[name], "std::%s<%s>" % (name, re.sub(r"\s+", " ", key)), [])
                    continue
                if s.func_at(m.start()) is None and s._inside_parens(m.start()):
                    continue      # parameter of a function PROTOTYPE: the definition's parameter is the fact
                fam = "KOrderedPtrContainer" if name in self.ORDERED else "KHashedPtrContainer"
                attrs = []
                extra = args[1:] if name in ("set", "multiset", "unordered_set", "unordered_multiset") else args[2:]
                if name == "priority_queue":
                    extra = args[2:]
                functor = extra[0] if extra else None
                if fam == "KOrderedPtrContainer" and functor:
                    attrs.append("ACustomCompare")
                if fam == "KHashedPtrContainer":
                    attrs.append(self.hash_functor_kind(functor))
                # declared name
                after = t[gt + 1:gt + 200]
                md = re.match(r"\s*(?:const\s*)?[&*]?\s*(" + IDENT + r")\s*(;|=|\{|\(|,|\)|\[)", after)
                is_type_use = re.match(r"\s*::", after) is not None
                decl = md.group(1) if md and not is_type_use and md.group(1) not in ("const", "operator") else None
                if decl is None:
                    self.add(s, m.start(), fam, "(unnamed use of the type)", attrs + ["AEscapes"], "type used without a declared name here")
                    continue
                uses = self.container_uses(s, m.start(), gt, decl)
                self.add(s, m.start(), fam, decl, attrs + uses["attrs"], uses["note"])
        self.stats["container_types_examined"] = examined

    def hash_functor_kind(self, functor):
        if not functor:
            return "AAddressHash"
        nm = functor.split("::")[-1].strip()
        nm = re.sub(r"<.*", "", nm)
        for s in self.sources:
            for m in re.finditer(r"\b(?:struct|class)\s+" + re.escape(nm) + r"\b[^;{]*\{", s.bare):
                b = self._block(s.bare, m.end() - 1)
                mo = re.search(r"operator\s*\(\s*\)\s*\(([^)]*)\)[^{;]*\{", b)
                if not mo:
                    continue
                body = self._block(b, mo.end() - 1)
                params = [re.findall(IDENT, p)[-1] for p in split_top(mo.group(1)) if re.findall(IDENT, p)]
                if re.search(r"reinterpret_cast|uintptr_t|\(\s*(std::)?size_t\s*\)\s*(" + "|".join(map(re.escape, params or ["?"])) + r")\b", body):
                    return "AAddressHash"
                if any(re.search(r"(\*\s*" + re.escape(p) + r"\b|\b" + re.escape(p) + r"\s*(->|\[)|\*\s*" + re.escape(p) + r"\s*\+\+)", body) for p in params):
                    return "AContentHash"
        return "AAddressHash"

    @staticmethod
    def _block(t, i):
        depth, j = 0, i
        while j < len(t):
            if t[j] == "{":
                depth += 1
            elif t[j] == "}":
                depth -= 1
                if depth == 0:
                    return t[i:j + 1]
            j += 1
        return t[i:]

    def container_uses(self, src, decl_pos, decl_end, name):
        """classify every other occurrence of the declared name in its scope"""
        f = src.func_at(decl_pos)
        scopes = []
        if f and f.body_start < decl_pos:
            scopes = [(src, f.body_start, f.body_end)]
        elif f:       # a parameter of the function
            scopes = [(src, f.head, f.body_end)]
        else:
            for s in self.sources:
                if re.search(r"\b" + re.escape(name) + r"\b", s.bare):
                    scopes.append((s, 0, len(s.bare)))
        attrs, notes = set(), []
        n_uses = 0
        rx = re.compile(r"\b" + re.escape(name) + r"\b")
        for s, a, b in scopes:
            t = s.bare
            for m in rx.finditer(t, a, b):
                if s is src and decl_pos <= m.start() <= decl_end + len(name) + 8:
                    continue
                # another declaration of the same name with a non-pointer-keyed type shadows: skip functions that redeclare it
                if f is None:
                    g = s.func_at(m.start())
                    if g and self._declares_local(s, g, name, m.start()):
                        continue
                n_uses += 1
                after = t[m.end():m.end() + 80]
                before = t[max(0, m.start() - 120):m.start()]
                if re.search(r"for\s*\([^;{}()]*:\s*\*?\s*(this\s*->\s*)?$", before):
                    attrs.add("AIterated"); notes.append("range-for %s:%d" % (s.rel, s.line_of(m.start())))
                    continue
                mm = re.match(r"\s*(?:\.|->)\s*(" + IDENT + r")\s*\(", after)
                if mm:
                    meth = mm.group(1)
                    if meth in self.MEMBERSHIP:
                        continue
                    if meth in self.ORDERQ:
                        attrs.add("AOrderQuery"); notes.append(".%s %s:%d" % (meth, s.rel, s.line_of(m.start())))
                        continue
                    attrs.add("AIterated"); notes.append(".%s %s:%d" % (meth, s.rel, s.line_of(m.start())))
                    continue
                if re.match(r"\s*\[", after):
                    continue
                if re.match(r"\s*(\(\s*\)|\{\s*\})\s*[,{)]?", after) and re.search(r"[,:]\s*$", before):
                    continue      # member initialiser  name() / name{}
                if re.match(r"\s*;", after) and re.search(r"(>|\bauto)\s*[&*]?\s*$", before):
                    continue      # another declaration line of the same member (e.g. in the header)
                # passed to a function of src whose parameter is itself a pointer-keyed container (a fact of its own)
                sa, sb = s.statement_at(m.start(), m.end())
                call = self._enclosing_call(s.struct_txt[sa:sb], m.start() - sa)
                if call and self._param_is_ptr_container(call[0], call[1]):
                    notes.append("passed to %s %s:%d" % (call[0], s.rel, s.line_of(m.start())))
                    continue
                attrs.add("AEscapes"); notes.append("other use %s:%d" % (s.rel, s.line_of(m.start())))
        if not (attrs & {"AIterated", "AOrderQuery", "AEscapes"}):
            attrs.add("AMembershipOnly")
        return dict(attrs=sorted(attrs), note="%d use(s); %s" % (n_uses, "; ".join(notes[:6]) if notes else "insert/find/count/erase/[] only"))

    def _param_is_ptr_container(self, callee, argi):
        simple = callee.split("::")[-1].split(".")[-1].split("->")[-1]
        cands = self.func_index.get(simple, [])
        ok = 0
        for g in cands:
            head = g.file.bare[g.head:g.body_start]
            mm = re.search(re.escape(simple) + r"\s*\(", head)
            if not mm:
                continue
            rp = match_paren(head, mm.end() - 1)
            ps = split_top(head[mm.end():rp]) if rp > 0 else []
            if argi >= len(ps):
                continue
            mt = self.CONTAINER_RX.search(ps[argi])
            if not mt:
                return False
            lt = mt.end() - 1
            gt = match_angle(ps[argi] + ";", lt)
            if gt < 0 or not is_pointer_type(split_top(ps[argi][lt + 1:gt])[0], self.ptr_typedefs):
                return False
            ok += 1
        return ok > 0

    def _declares_local(self, s, func, name, before_pos):
        body = s.bare[func.head:func.body_end]
        return re.search(r"[\w>\]&*]\s+[&*]?\s*" + re.escape(name) + r"\s*(;|=|\{|\(|,|\))", body) is not None and \
            not re.search(r"\b(return|delete|throw|else|case)\s+[&*]?\s*" + re.escape(name) + r"\b", body[:1]) and \
            self._decl_type(s, func, name) is not None

    def _decl_type(self, s, func, name):
        """type text of a local declaration / parameter `T name` in func, or None"""
        body = s.bare[func.head:func.body_end]
        for m in re.finditer(r"((?:const\s+)?(?:[A-Za-z_][\w:]*)(?:\s*<[^;{}]*?>)?(?:\s*::\s*\w+)*\s*(?:const\s*)?[&*]*)\s*\b" + re.escape(name) + r"\s*(;|=|\{|\(|,|\)|:|\[)", body):
            ty = m.group(1).strip()
            first = re.match(r"(?:const\s+)?([A-Za-z_][\w:]*)", ty).group(1)
            if first in ("return", "delete", "throw", "else", "case", "new", "goto", "typename", "using", "namespace", "and", "or", "not", "co_return"):
                continue
            return ty
        return None

    # ---------------------------------------------------------------------------------------
    # B. sort-like calls
    # ---------------------------------------------------------------------------------------
    def scan_sorts(self):
        rx = re.compile(r"(?<![\w.>])((?:std\s*::\s*)?)(sort|stable_sort|partial_sort|nth_element|min_element|max_element|minmax_element|selectionSort)\s*\(")
        examined = 0
        for s in self.sources:
            t = s.bare
            for m in rx.finditer(t):
                lp = m.end() - 1
                rp = match_paren(t, lp)
                if rp < 0:
                    continue
                f = s.func_at(m.start())
                # skip the definitions/declarations of sort itself
                pre = t[max(0, m.start() - 60):m.start()]
                if re.search(r"(void|inline|static|>)\s*$", pre) or (f and f.name.split("::")[-1] == m.group(2) and f.head <= m.start() < f.body_start):
                    continue
                args = split_top(t[lp + 1:rp])
                if not args or not args[0]:
                    continue
                if f and f.name.split("::")[-1] in ("sort", "selectionSort") and s.rel.endswith("mtl/Sort.h"):
                    continue      # the generic routine itself: its comparator is the template parameter examined at every call site
                examined += 1
                std = bool(m.group(1)) or re.search(r"\.\s*begin\s*\(\s*\)\s*$", args[0]) is not None
                ncont = 2 if std and m.group(2) != "partial_sort" and m.group(2) != "nth_element" else (3 if std else 1)
                if not std and len(args) >= 2 and re.fullmatch(r"[\w.\->\[\]() +]*", args[1]) and not re.search(r"[({]|less|greater|\[", args[1]) and re.search(r"size|\d|^n$|len", args[1]):
                    ncont = 2          # sort(T* array, int size [, lt])
                cmp_ = args[ncont] if len(args) > ncont else None
                target = args[0]
                elem = self.element_type(s, f, target)
                attrs, note = [], "arg0=%s" % re.sub(r"\s+", " ", target)[:60]
                if cmp_:
                    ck = self.comparator_kind(s, f, cmp_)
                    if ck == "content":
                        continue
                    attrs.append("ACmpOnAddress" if ck == "address" else "ACmpUnresolved")
                    note += "; comparator=%s" % re.sub(r"\s+", " ", cmp_)[:60]
                else:
                    if elem is None:
                        attrs.append("AElemUnresolved")
                    elif is_pointer_type(elem, self.ptr_typedefs):
                        attrs.append("AElemPointer"); note += "; element type %s" % elem
                    else:
                        continue
                self.add(s, m.start(), "KSortPtr", m.group(2) + ":" + re.sub(r"\s+", "", target)[:40], attrs, note)
        self.stats["sort_calls_examined"] = examined

    def element_type(self, s, f, expr):
        """element type of the container expression `expr` (x, x.begin(), obj.method().begin(), (T*)v ...) or None"""
        e = re.sub(r"\s+", "", expr)
        e = re.sub(r"\.(begin|end|cbegin|rbegin)\(\)$", "", e)
        e = re.sub(r"^std::(begin|end)\((.*)\)$", r"\2", e)
        m = re.fullmatch(r"(?:this->)?(" + IDENT + r")", e)
        ty = None
        if m:
            ty = self.var_type(s, f, m.group(1))
            if ty is not None and re.fullmatch(r"(const\s+)?auto(\s*const)?\s*[&*]*", ty.strip()) and f:
                mi = re.search(r"\b" + re.escape(m.group(1)) + r"\s*=\s*([^;]+);", s.bare[f.head:f.body_end])
                ty = None
                if mi:
                    init = re.sub(r"\s+", "", mi.group(1))
                    mc = re.fullmatch(r"(?:(" + IDENT + r")(?:\.|->))?(" + IDENT + r")\(\)", init)
                    if mc:
                        ty = self.return_type(mc.group(2), self._class_of_var(s, f, mc.group(1)))
        else:
            m = re.search(r"(?:(" + IDENT + r")(?:\.|->))?(" + IDENT + r")\(\)$", e)
            if m:
                ty = self.return_type(m.group(2), self._class_of_var(s, f, m.group(1)))
        if ty is None:
            return None
        return self.elem_of(ty)

    def elem_of(self, ty):
        ty = ty.strip()
        ty = re.sub(r"^(const\s+)", "", ty)
        ty = re.sub(r"\s*(const\s*)?&+$", "", ty)
        m = re.match(r"(?:std::)?(?:vector|vec|deque|array|list|span|set|multiset|unordered_set)\s*<", ty)
        if m:
            lt = ty.index("<")
            gt = match_angle(ty + ";", lt)
            if gt > 0:
                return split_top(ty[lt + 1:gt])[0]
        # typedef'd container: look the alias up
        base = ty.split("::")[-1]
        for s in self.sources:
            mm = re.search(r"\busing\s+" + re.escape(base) + r"\s*=\s*([^;]+);", s.bare) or re.search(r"\btypedef\s+([^;]+?)\s+" + re.escape(base) + r"\s*;", s.bare)
            if mm and mm.group(1).strip() != ty:
                return self.elem_of(mm.group(1))
        return None

    def var_type(self, s, f, name):
        if f:
            ty = self._decl_type(s, f, name)
            if ty:
                return ty
        # member / global: class body in any file
        rx = re.compile(r"\b" + re.escape(name) + r"\s*(;|=\s*[^=]|\{|\[)")
        ty_rx = re.compile(r"((?:const\s+)?(?:[A-Za-z_][\w:]*)(?:\s*<[^;{}()]*>)?\s*(?:const\s*)?[&*]*)\s*$")
        for s2 in [s] + [x for x in self.sources if x is not s]:
            if name not in s2.bare:
                continue
            for m in rx.finditer(s2.bare):
                if s2.func_at(m.start()) is not None:
                    continue
                pre = s2.bare[max(0, m.start() - 160):m.start()]
                cut = max(pre.rfind(";"), pre.rfind("{"), pre.rfind("}"), pre.rfind(":") if not pre.rstrip().endswith("::") else -1)
                pre = pre[cut + 1:]
                mt = ty_rx.search(pre)
                if not mt or not mt.group(1).strip():
                    continue
                first = re.match(r"(?:const\s+)?([A-Za-z_][\w:]*)", mt.group(1)).group(1)
                if first in ("return", "delete", "throw", "else", "case", "new", "using", "typedef", "namespace", "public", "private", "protected"):
                    continue
                return mt.group(1).strip()
        return None

    def _class_of_var(self, s, f, name):
        if not name:
            return None
        ty = self.var_type(s, f, name)
        if not ty:
            return None
        ids = [i for i in re.findall(IDENT, ty) if i not in ("const", "std", "auto")]
        return ids[-1] if ids else None

    def return_type(self, method, cls=None):
        tys = set()
        for s in self.sources:
            spans = [(0, len(s.bare))]
            if cls:
                spans = [(c[2], c[3]) for c in s.classes if c[0] == cls]
            for a_, b_ in spans:
              for m in re.compile(r"((?:const\s+)?(?:[A-Za-z_][\w:]*)(?:\s*<[^;{}()]*?>)?\s*(?:const\s*)?[&*]*)\s*(?:\w+\s*::\s*)*\b" + re.escape(method) + r"\s*\([^;{}()]*\)\s*(?:const)?\s*(?:override|final|noexcept)?\s*[{;]").finditer(s.bare, a_, b_):
                first = re.match(r"(?:const\s+)?([A-Za-z_][\w:]*)", m.group(1)).group(1)
                if first in ("return", "delete", "throw", "else", "case", "new"):
                    continue
                tys.add(re.sub(r"\s+", " ", m.group(1).strip()))
        elems = {self.elem_of(t) for t in tys}
        if len(tys) >= 1 and len(elems) == 1 and None not in elems:
            return list(tys)[0]
        return None

    def comparator_kind(self, s, f, cmp_):
        c = cmp_.strip()
        if re.match(r"\[", c):    # lambda
            m = re.match(r"\[[^\]]*\]\s*\(([^)]*)\)", c)
            body = c[c.find("{"):] if "{" in c else ""
            return self._cmp_body_kind(split_top(m.group(1)) if m else [], body)
        m = re.match(r"(?:std\s*::\s*)?(less|greater|less_equal|greater_equal)\s*<([^>]*)>", c)
        if m:
            return "address" if is_pointer_type(m.group(2), self.ptr_typedefs) else "content"
        nm = re.match(r"(?:\w+\s*::\s*)*(" + IDENT + r")", c)
        if not nm:
            return "unresolved"
        name = nm.group(1)
        # a local variable holding a lambda
        if f:
            body = s.bare[f.body_start:f.body_end]
            ml = re.search(r"\bauto\s+" + re.escape(name) + r"\s*=\s*\[[^\]]*\]\s*\(([^)]*)\)[^{]*\{", body)
            if ml:
                return self._cmp_body_kind(split_top(ml.group(1)), self._block(body, ml.end() - 1))
        found = None
        for s2 in self.sources:
            for m2 in re.finditer(r"\b(?:struct|class)\s+" + re.escape(name) + r"\b[^;{]*\{", s2.bare):
                b = self._block(s2.bare, m2.end() - 1)
                for mo in re.finditer(r"operator\s*\(\s*\)\s*\(([^)]*)\)[^{;]*\{", b):
                    k = self._cmp_body_kind(split_top(mo.group(1)), self._block(b, mo.end() - 1))
                    if k == "address":
                        return "address"
                    found = k
            if found is None:
                for fn in s2.funcs:
                    if fn.name.split("::")[-1] == name:
                        head = s2.bare[fn.head:fn.body_start]
                        mp = re.search(r"\(([^)]*)\)\s*(const)?\s*$", head.strip())
                        k = self._cmp_body_kind(split_top(mp.group(1)) if mp else [], s2.bare[fn.body_start:fn.body_end + 1])
                        if k == "address":
                            return "address"
                        found = k
        return found or "unresolved"

    def _cmp_body_kind(self, params, body):
        ptr_params = []
        for p in params:
            ids = re.findall(IDENT, p)
            if not ids:
                continue
            ty = p[:p.rfind(ids[-1])]
            if is_pointer_type(ty.replace("&", " "), self.ptr_typedefs):
                ptr_params.append(ids[-1])
        if not ptr_params:
            return "content"
        alt = "|".join(map(re.escape, ptr_params))
        if re.search(r"(?<![\w>.\]])(" + alt + r")\s*(<|>|<=|>=)\s*(" + alt + r")(?![\w\[(.]|\s*->)", body):
            return "address"
        return "content"

    # ---------------------------------------------------------------------------------------
    # C. pointer -> integer, printing of pointers
    # ---------------------------------------------------------------------------------------
    INT_T = r"(?:std\s*::\s*)?(?:u?intptr_t|size_t|ptrdiff_t|u?int64_t|u?int32_t|unsigned\s+long\s+long|unsigned\s+long|long\s+long|long|unsigned\s+int|unsigned|int|uint)"

    def scan_pointer_values(self):
        for s in self.sources:
            t = s.bare
            for m in re.finditer(r"\breinterpret_cast\s*<\s*(" + self.INT_T + r")\s*>\s*\(", t):
                rp = match_paren(t, m.end() - 1)
                self.add(s, m.start(), "KPtrToInt", "reinterpret_cast<%s>" % re.sub(r"\s+", " ", m.group(1)), ["AOperandPointer"],
                         re.sub(r"\s+", " ", t[m.end():rp])[:60])
            for m in re.finditer(r"\(\s*(" + self.INT_T + r")\s*\)\s*(&\s*" + IDENT + r"\b|this\b|" + IDENT + r"\b)(?!\s*\()", t):
                pre = t[max(0, m.start() - 40):m.start()]
                if re.search(r"(\w|>|\))\s*$", pre) and not re.search(r"\b(return|case|and|or|not)\s*$", pre):
                    continue     # a call f(int)(x) or a declarator, not a cast
                opnd = m.group(2)
                f = s.func_at(m.start())
                if opnd.startswith("&") or opnd == "this":
                    self.add(s, m.start(), "KPtrToInt", "(%s)%s" % (m.group(1), re.sub(r"\s+", "", opnd)), ["AOperandPointer"])
                    continue
                ty = self.var_type(s, f, opnd)
                if ty is None:
                    if re.fullmatch(r"[A-Z_0-9]+", opnd) or opnd in ("sizeof",):
                        continue
                    # unresolved operands are reported only when the target type can hold an address
                    if re.search(r"intptr_t|size_t|long|64", m.group(1)):
                        self.add(s, m.start(), "KPtrToInt", "(%s)%s" % (re.sub(r"\s+", " ", m.group(1)), opnd), ["AOperandUnresolved"])
                    continue
                if is_pointer_type(ty, self.ptr_typedefs):
                    self.add(s, m.start(), "KPtrToInt", "(%s)%s" % (m.group(1), opnd), ["AOperandPointer"], "declared %s" % ty)
            # a union that overlays a pointer with an arithmetic member: reading the other member is a cast without a cast
            for m in re.finditer(r"\bunion\s*(?:" + IDENT + r"\s*)?\{([^{}]*)\}", t):
                members = [x.strip() for x in m.group(1).split(";") if x.strip()]
                ptrs = [x for x in members if "*" in x and "(" not in x]
                nums = [x for x in members if "*" not in x and re.match(r"(?:const\s+)?(?:unsigned\s+)?(?:" + self.INT_T + r"|double|float|char|short|bool)\b", x)]
                if ptrs and nums:
                    self.add(s, m.start(), "KPtrToInt", "union:%s|%s" % (re.findall(IDENT, ptrs[0])[-1], re.findall(IDENT, nums[0])[-1]), ["AOperandPointer"],
                             "union { %s } overlays a pointer with an arithmetic value" % "; ".join(members)[:160])
            # %p in a format string
            for m in re.finditer(r"%[-+ #0-9.]*p\b", s.code):
                if s.bare[m.start()] != " " and s.bare[m.start():m.end()] == s.code[m.start():m.end()]:
                    continue       # not inside a string literal
                a, b = s.statement_at(m.start())
                self.add(s, m.start(), "KPtrPrint", "%p", [self.stream_of(s, a, b, m.start())], re.sub(r"\s+", " ", s.code[a:b]).strip()[:80])
            # streaming a pointer
            for m in re.finditer(r"<<\s*(\(\s*(?:const\s+)?void\s*(?:const\s*)?\*\s*\)|static_cast\s*<\s*(?:const\s+)?void\s*(?:const\s*)?\*\s*>|reinterpret_cast\s*<\s*(?:const\s+)?void\s*(?:const\s*)?\*\s*>|this\b(?!\s*->)|&\s*" + IDENT + r"\b(?!\s*[\[(]))", t):
                a, b = s.statement_at(m.start())
                self.add(s, m.start(), "KPtrPrint", "<< " + re.sub(r"\s+", "", m.group(1))[:30], [self.stream_of(s, a, b, m.start())],
                         re.sub(r"\s+", " ", s.code[a:b]).strip()[:80])

    STDERR_RX = re.compile(r"\b(?:std\s*::\s*)?(cerr|clog)\b|\bfprintf\s*\(\s*stderr\b|\breportf\s*\(|\bperror\s*\(|\bfputs\s*\([^;]*,\s*stderr\s*\)|\bopensmt_error\w*\s*\(|\bopensmt_warning\w*\s*\(")
    STDOUT_RX = re.compile(r"\b(?:std\s*::\s*)?cout\b|(?<![\w.>])printf\s*\(|\bfprintf\s*\(\s*stdout\b|(?<![\w.>])puts\s*\(|(?<![\w.>])putchar\s*\(|\bfputs\s*\([^;]*,\s*stdout\s*\)")
    STREAM_RX = re.compile(r"\b(\w+)\s*<<|\bfprintf\s*\(\s*(\w+)")

    def stream_of(self, s, a, b, pos=None):
        stmt = s.bare[a:b]
        if self.STDERR_RX.search(stmt):
            return "ASinkStderr"
        if self.STDOUT_RX.search(stmt):
            return "ASinkStdout"
        if re.search(r"\bs?n?printf\s*\(\s*\w+\s*,", stmt) and re.search(r"\bsn?printf\b", stmt):
            # formatted into a buffer: where the buffer goes is followed only for the verification hooks
            return "ASinkBuffer"
        if self.STREAM_RX.search(stmt):
            return "ASinkStream"
        return "ASinkUnknown"

    # ---------------------------------------------------------------------------------------
    # D. entropy roots + taint propagation
    # ---------------------------------------------------------------------------------------
    VALUE_ROOTS = ["time", "clock", "getpid", "getppid", "gettid", "pthread_self", "random", "drand48", "lrand48", "mrand48", "rand_r",
                   "arc4random", "arc4random_uniform", "__rdtsc", "rdtsc", "sbrk", "getuid", "times"]
    OUTPARAM_ROOTS = ["getrusage", "gettimeofday", "clock_gettime", "getrandom", "getentropy", "uname", "gethostname", "mallinfo", "mallinfo2"]
    NEUTRAL_CALLS = {"fclose", "pclose", "free", "assert", "fflush", "strlen", "sizeof", "static_cast", "fopen", "popen", "delete"}
    DEST_FIRST = {"snprintf", "sprintf", "strcpy", "strncpy", "memcpy", "strcat"}
    OUTPARAM_CALLS = {"fscanf", "sscanf", "fgets", "fread", "read"}

    def scan_entropy(self):
        self.taint_work = []      # (kind, payload)
        self.tainted_funcs = {}   # simple name -> root description
        self.tainted_classes = {}
        self.seen_uses = set()
        roots = []
        call_rx = re.compile(r"(?<![\w.>])((?:std\s*::\s*|::\s*)?)(" + "|".join(self.VALUE_ROOTS + self.OUTPARAM_ROOTS) + r")\s*\(")
        for s in self.sources:
            t = s.bare
            for m in call_rx.finditer(t):
                nm = m.group(2)
                if re.search(r"(->|\.|::)\s*$", t[max(0, m.start() - 4):m.start()]) and not m.group(1):
                    continue
                pre = t[max(0, m.start() - 40):m.start()]
                if re.search(r"\b(double|int|long|void|float|auto|unsigned|size_t|clock_t|time_t|pid_t|static|inline)\s+$", pre) or re.search(r"[\w>&*]\s+$", pre) and not re.search(r"\b(return|else|and|or|not|case)\s+$", pre):
                    continue      # a declaration/definition of a function with that name
                f = s.func_at(m.start())
                if f and f.name.split("::")[-1] == nm:
                    continue
                roots.append((s, m.start(), m.end(), nm, "outparam" if nm in self.OUTPARAM_ROOTS else "value"))
            for m in re.finditer(r"::\s*now\s*\(", t):
                roots.append((s, m.start(), m.end(), "chrono::now", "value"))
            for m in re.finditer(r"\b(?:std\s*::\s*)?random_device\b", t):
                roots.append((s, m.start(), m.end(), "random_device", "value"))
            for m in re.finditer(r"\bthis_thread\s*::\s*get_id\s*\(", t):
                roots.append((s, m.start(), m.end(), "this_thread::get_id", "value"))
            for m in re.finditer(r"/dev/u?random|/proc/self/|/proc/%d", s.code):
                if s.bare[m.start()] == " ":
                    roots.append((s, m.start(), m.end(), s.code[m.start():m.end()], "string"))
        self.stats["entropy_roots"] = len(roots)
        for s, a, b, nm, mode in roots:
            traced = self.consume(s, a, b, "root:" + nm, nm, mode)
            self.add(s, a, "KEntropyRoot", nm, ["ATraced"] if traced else [], "root (%s)" % mode)
        # worklist
        guard = 0
        while self.taint_work:
            guard += 1
            kind, payload, self.cur_depth = self.taint_work.pop(0)
            if guard > 400 or len(self.facts) > 3000:
                # the run-dependent value spreads through the program (e.g. it seeds the search): stop following it and
                # say so with a fact that the rules classify as leaking
                src0 = payload[0] if kind == "var" else payload[0].file
                pos0 = (payload[1].head if payload[1] else 0) if kind == "var" else payload[0].head
                self.taint_work = []
                # keep the facts near the roots readable: drop what was collected far away from them
                self.facts = [f for f in self.facts if not (f.kind == "KEntropyUse" and getattr(f, "depth", 0) > 2)]
                self.cur_depth = 0
                self.use(src0, pos0, "(taint propagation cut off)", "ASinkUnknown", payload[3] if kind == "var" else payload[1],
                         "more than 400 variables/functions carry the value: it is not confined to statistics")
                break
            if kind == "var":
                self.follow_var(*payload)
            elif kind == "func":
                self.follow_func(*payload)

    def use(self, s, pos, ident, sink, root, note=""):
        k = (s.rel, s.line_of(pos), ident, sink)
        if k in self.seen_uses:
            return
        self.seen_uses.add(k)
        self.add(s, pos, "KEntropyUse", ident, [sink], ("from %s; " % root) + note)
        self.facts[-1].depth = getattr(self, "cur_depth", 0)

    def consume(self, s, a, b, ident, root, mode="value"):
        try:
            return self._consume(s, a, b, ident, root, mode)
        except (IndexError, AttributeError, ValueError) as e:
            self.use(s, a, ident, "ASinkUnknown", root, "statement not understood by the scanner (%s)" % type(e).__name__)
            return False

    def _consume(self, s, a, b, ident, root, mode="value"):
        """classify the statement that contains the tainted expression s.bare[a:b]; returns True when understood"""
        t = s.struct_txt
        sa, sb = s.statement_at(a, b)
        stmt = t[sa:sb]
        f = s.func_at(a)
        line = re.sub(r"\s+", " ", re.sub(r"(?m)^[ \t]*#[^\n]*", "", s.code[sa:sb])).strip()[:90]
        rel = a - sa
        if mode == "string":
            # the literal names an entropy file: the statement's call result / destination buffer is tainted
            m = re.search(r"\b(snprintf|sprintf)\s*\(\s*(" + IDENT + ")", stmt)
            if m:
                self.taint_var(s, f, m.group(2), root, a)
                self.use(s, a, ident, "ASinkAssign", root, line)
                return True
            m = re.match(r"\s*(?:[\w:<>*&\s]+?\s+)?[*&]?\s*(" + IDENT + r")\s*(?:=|\()", stmt)
            if m and re.search(r"\b(fopen|open|ifstream|popen)\b", stmt):
                self.taint_var(s, f, m.group(1), root, a)
                self.use(s, a, ident, "ASinkAssign", root, line)
                return True
            self.use(s, a, ident, "ASinkUnknown", root, line)
            return False
        if mode == "outparam":
            rp = match_paren(t, b - 1)
            args = split_top(t[b:rp]) if rp > 0 else []
            outs = [re.sub(r"^&\s*", "", x) for x in args if x.startswith("&")] or [x for x in args[:1] if re.fullmatch(IDENT, x)]
            if not outs:
                self.use(s, a, ident, "ASinkUnknown", root, line)
                return False
            for o in outs:
                base = re.match(IDENT, o)
                if base:
                    self.taint_var(s, f, base.group(0), root, a)
            self.use(s, a, ident, "ASinkAssign", root, "out-parameter(s) %s; %s" % (",".join(outs), line))
            return True
        expr = re.sub(r"\s+", "", stmt[rel:b - sa])
        if re.fullmatch(IDENT, expr) and (re.search(r"\b" + expr + r"\s*(==|!=)\s*(NULL|nullptr)\b", stmt) or
                                          re.match(r"\s*if\s*\(\s*!?\s*" + expr + r"\s*\)", stmt)):
            self.use(s, a, ident, "ASinkNeutral", root, "null check of a handle; " + line)
            return True
        if re.fullmatch(r"\s*" + re.escape(stmt[rel:b - sa].strip()) + r"\s*;?\s*", stmt):
            self.use(s, a, ident, "ASinkNeutral", root, "value discarded; " + line)
            return True
        # 0. argument of a function defined in src: the parameter is tainted (and the rules below still see the statement)
        arg_done = False
        call0 = self._enclosing_call(stmt, rel)
        if call0:
            fn0, argi0, _ = call0
            simple0 = fn0.split("::")[-1].split(".")[-1].split("->")[-1]
            if simple0 not in self.NEUTRAL_CALLS and simple0 not in self.DEST_FIRST and simple0 not in self.OUTPARAM_CALLS:
                n0 = 0
                for g in self.func_index.get(simple0, []):
                    ps = self._params(g)
                    if argi0 < len(ps) and ps[argi0]:
                        self.taint_var(g.file, g, ps[argi0], root, g.head, param=True)
                        n0 += 1
                if n0:
                    arg_done = True
                    self.use(s, a, ident, "ASinkArg", root, "argument %d of %s; %s" % (argi0, simple0, line))
        # 1. output statements
        sink = None
        if self.STDERR_RX.search(stmt):
            sink = "ASinkStderr"
        elif self.STDOUT_RX.search(stmt):
            sink = "ASinkStdout"
        if sink:
            self.use(s, a, ident, sink, root, line)
            return True
        head = stmt[:rel]
        tail = stmt[b - sa:]
        # 2. return
        if re.match(r"\s*return\b", stmt):
            if f:
                self.taint_func(f, root)
                self.use(s, a, ident, "ASinkReturn", root, line)
                return True
        # 3. assignment / initialisation   [type] V = ... expr ...   |  V op= ...  | T V(expr) | T V{expr}
        m = re.match(r"\s*((?:[\w:<>,*&\s]|\[\s*\])*?)((?:this\s*->\s*)?(?:" + IDENT + r"\s*(?:::|\.|->)\s*)*" + IDENT + r")\s*(?:\[[^\]]*\]\s*)?(=|\+=|-=|\*=|/=|\|=)(?!=)", stmt)
        if m and m.end() <= rel and not re.match(r"\s*(if|while|for|switch|return|else|case)\b", stmt):
            # a comparison inside the right-hand side?
            cmp_here = self._compared(stmt, rel, b - sa)
            target = m.group(2)
            base = re.findall(IDENT, target)
            v = base[-1] if ("::" in target or "->" in target) else base[0]
            qual = base[-2] if ("::" in target and len(base) >= 2 and "." not in target and "->" not in target) else None
            self.taint_var(s, f, v, root, a, qualifier=qual)
            self.use(s, a, ident, "ASinkAssign", root, "-> %s; %s" % (v, line))
            if cmp_here:
                self.use(s, a, ident + "?cmp", "ASinkCompare", root, line)
            return True
        # member initialiser in a constructor head:  , x(expr)
        mi = re.search(r"[,:]\s*(" + IDENT + r")\s*[({]\s*$", head)
        if mi and f is not None and f.head <= a < f.body_start:
            self.taint_var(s, None, mi.group(1), root, a, qualifier=self.class_of(s, f, a))
            self.use(s, a, ident, "ASinkAssign", root, "-> %s (member initialiser); %s" % (mi.group(1), line))
            return True
        # 4. argument of a call / constructor
        call = self._enclosing_call(stmt, rel)
        if call:
            fn, argi, callpos = call
            simple = fn.split("::")[-1].split(".")[-1].split("->")[-1]
            if ("." in fn or "->" in fn) and simple in (self.DEST_FIRST | self.OUTPARAM_CALLS | {"fopen", "popen", "free", "delete"}):
                simple = "method:" + simple      # a method that happens to carry a libc name
            if simple in self.NEUTRAL_CALLS or simple == "void":
                self.use(s, a, ident, "ASinkNeutral", root, line)
                return True
            if simple in self.DEST_FIRST and argi == 0:
                return True       # the destination buffer being written
            if simple in self.DEST_FIRST:
                lp = stmt.find("(", callpos)
                args = split_top(stmt[lp + 1:match_paren(stmt, lp)])
                d = re.match(r"&?\s*(" + IDENT + ")", args[0]) if args else None
                if d and argi > 0:
                    self.taint_var(s, f, d.group(1), root, a)
                    self.use(s, a, ident, "ASinkAssign", root, "-> %s (destination buffer); %s" % (d.group(1), line))
                    return True
            if simple in self.OUTPARAM_CALLS:
                lp = stmt.find("(", callpos)
                args = split_top(stmt[lp + 1:match_paren(stmt, lp)])
                outs = [re.sub(r"^&\s*", "", x) for x in args[1:] if x.startswith("&")]
                if simple in ("fgets", "fread", "read") and args:
                    mo = re.match(r"&?\s*(" + IDENT + ")", args[min(len(args) - 1, 0 if simple != "read" else 1)])
                    outs = [mo.group(1)] if mo else []
                for o in outs:
                    self.taint_var(s, f, re.match(IDENT, o).group(0), root, a)
                if outs:
                    self.use(s, a, ident, "ASinkAssign", root, "read into %s; %s" % (",".join(outs), line))
                    return True
            if simple in ("fopen", "popen"):
                pass
            # comparison?
            if self._compared(stmt, rel, b - sa):
                self.use(s, a, ident, "ASinkCompare", root, line)
                return True
            # declaration with constructor arguments  T v(expr)  where T is not a known function
            cands = self.func_index.get(simple, [])
            md = re.match(r"\s*((?:const\s+)?[\w:]+(?:\s*<[^;]*>)?\s*[&*]?)\s+(" + IDENT + r")\s*[({]", stmt)
            if md and md.group(2) == simple and not cands:
                tyname = re.findall(IDENT, md.group(1).replace("const", ""))[-1]
                if any(c[0] == tyname for x in self.sources for c in x.classes) and \
                        any(re.search(r"[:,]\s*\w+\s*[({]", g.file.bare[g.head:g.body_start]) for g in self.func_index.get(tyname, [])):
                    # an object of a class of this code base constructed from it: handled through the constructor's
                    # parameters when the constructor is found, otherwise the object is tainted
                    pass
                self.taint_var(s, f, simple, root, a)
                self.use(s, a, ident, "ASinkAssign", root, "-> %s (constructed from it); %s" % (simple, line))
                return True
            if arg_done:
                return True
            if simple in self.tainted_classes or simple in ("TimeVal", "BTime"):
                # temporary of a time class: treat as an expression, look at the enclosing statement again without it
                pass
            else:
                self.use(s, a, ident, "ASinkUnknown", root, "argument %d of %s (definition not found in src); %s" % (argi, simple, line))
                return False
        # 5. comparison / condition
        if self._compared(stmt, rel, b - sa) or re.match(r"\s*(if|while|for|switch)\b", stmt):
            self.use(s, a, ident, "ASinkCompare", root, line)
            return True
        # 6. generic stream
        if self.STREAM_RX.search(stmt):
            self.use(s, a, ident, "ASinkStream", root, line)
            return True
        # 7. a declaration of an object of a tainting class:  StopWatch sw(timer)  handled by follow_class
        if re.match(r"\s*\(\s*void\s*\)", stmt):
            self.use(s, a, ident, "ASinkNeutral", root, line)
            return True
        self.use(s, a, ident, "ASinkUnknown", root, line)
        return False

    @staticmethod
    def _compared(stmt, a, b):
        """is the expression stmt[a:b] (possibly extended by arithmetic / enclosing parentheses) an operand of a comparison?"""
        left = stmt[:a]
        right = stmt[b:]
        # skip a call's argument list directly after the expression
        r = right.lstrip()
        if r.startswith("("):
            rp = match_paren(r, 0)
            r = r[rp + 1:] if rp > 0 else r
        r = re.sub(r"^(\s*(\.\s*\w+\s*\(\s*\)|[-+*/]\s*[\w.:]+(\s*\([^()]*\))?|\)))*", "", r)
        if re.match(r"\s*(<=|>=|==|!=|<(?!<)|>(?!>))", r):
            return True
        l = re.sub(r"(([\w.:]+(\s*\([^()]*\))?\s*[-+*/]\s*)|\(\s*)*$", "", left)
        if re.search(r"[A-Za-z_][\w:]*\s*<[\w:\s,*&<>]*>\s*$", l) and not re.search(r">=\s*$|->\s*$", l):
            return False      # the closing bracket of a template argument list  f<T>(expr)
        if re.search(r"(<=|>=|==|!=|(?<![<-])<|(?<![>-])>)\s*$", l):
            return True
        return False

    @staticmethod
    def _enclosing_call(stmt, rel):
        """innermost call f( ... rel ... ) in stmt: (callee text, argument index, position of callee) or None"""
        depth, i = 0, rel - 1
        argi = 0
        while i >= 0:
            ch = stmt[i]
            if ch in ")]}":
                depth += 1
            elif ch in "([{":
                if depth == 0:
                    if ch != "(" and ch != "{":
                        return None
                    pre = stmt[:i].rstrip()
                    m = re.search(r"((?:[A-Za-z_]\w*\s*(?:::|\.|->)\s*)*[A-Za-z_]\w*)\s*(?:<[^<>()]*>)?$", pre)
                    if not m:
                        # parenthesised sub-expression: continue outwards
                        i -= 1
                        continue
                    nm = re.sub(r"\s+", "", m.group(1))
                    if nm.split("::")[-1] in ("if", "while", "for", "switch", "return", "and", "or", "not", "sizeof"):
                        return None
                    return nm, argi, m.start(1)
                depth -= 1
            elif ch == "," and depth == 0:
                argi += 1
            i -= 1
        return None

    def _params(self, g):
        head = g.file.bare[g.head:g.body_start]
        lp = head.find("(")
        # the parameter list is the first top-level (...) after the name
        nm = g.name.split("::")[-1]
        mm = re.search(re.escape(nm) + r"\s*\(", head)
        if mm:
            lp = mm.end() - 1
        rp = match_paren(head, lp) if lp >= 0 else -1
        if rp < 0:
            return []
        out = []
        for p in split_top(head[lp + 1:rp]):
            p = p.split("=")[0]
            ids = re.findall(IDENT, p)
            out.append(ids[-1] if len(ids) >= 2 else None)
        return out

    def class_of(self, s, f, pos):
        """name of the class a position belongs to (method of C, or inside the body of class C), or None"""
        if f is not None:
            if "::" in f.name:
                return re.sub(r"<[^<>]*>", "", f.name).split("::")[-2]
            if f.cls:
                return f.cls
        c = s.class_at(pos)
        return c[0] if c else None

    def family(self, cls):
        """cls with its base classes and derived classes (transitively), from `class X : public Y` heads"""
        if not hasattr(self, "_bases"):
            self._bases = {}
            for x in self.sources:
                for m in re.finditer(r"\b(?:class|struct)\s+(" + IDENT + r")\s*(?:final\s*)?:\s*([^{;]+)\{", x.bare):
                    bs = [re.findall(IDENT, b)[-1] for b in split_top(m.group(2)) if re.findall(IDENT, b)]
                    self._bases.setdefault(m.group(1), set()).update(bs)
        fam, work = {cls}, [cls]
        while work:
            c = work.pop()
            rel = set(self._bases.get(c, ())) | {d for d, bs in self._bases.items() if c in bs}
            for r in rel - fam:
                fam.add(r); work.append(r)
        return fam

    def taint_var(self, s, f, name, root, pos, param=False, qualifier=None):
        if name in ("this", "std", "NULL", "nullptr"):
            return
        local = False
        if f is not None and not qualifier:
            if param or self._decl_type(s, f, name) is not None:
                local = True
        cls = None if local else (qualifier or self.class_of(s, f, pos))
        key = ("var", s.rel if local else "*", f.body_start if (local and f) else -1, name, cls)
        if key in self.seen_uses:
            return
        self.seen_uses.add(key)
        self.taint_work.append(("var", (s, f if local else None, name, root, cls), getattr(self, "cur_depth", 0) + 1))
        if not local:
            self.ref_member_sites(name, root, cls)

    def taint_func(self, f, root):
        nm = f.name.split("::")[-1]
        if nm in self.tainted_funcs:
            return
        self.tainted_funcs[nm] = root
        self.taint_work.append(("func", (f, root), getattr(self, "cur_depth", 0) + 1))

    def follow_var(self, s, f, name, root, cls=None):
        """every other occurrence of a tainted variable.  Local variable / parameter: the function.  Member of class C:
        the methods and bodies of C, its bases and its derived classes.  Otherwise (file-scope variable): all sources.
        Functions that declare a local of the same name are skipped."""
        rx = re.compile(r"(?<![\w])" + re.escape(name) + r"\b")
        fam = self.family(cls) if (f is None and cls) else None
        scopes = [(s, f.head, f.body_end)] if f else [(x, 0, len(x.bare)) for x in self.sources if rx.search(x.bare)]
        for x, a, b in scopes:
            t = x.struct_txt
            for m in rx.finditer(t, a, b):
                g = x.func_at(m.start())
                if f is None:
                    if g is not None and self._decl_type(x, g, name) is not None:
                        continue
                    if fam is not None and self.class_of(x, g, m.start()) not in fam:
                        # object.member access from outside the class family
                        if not re.search(r"(\.|->)\s*$", t[max(0, m.start() - 3):m.start()]):
                            continue
                        recv = re.search(r"(" + IDENT + r")\s*(\.|->)\s*$", t[max(0, m.start() - 60):m.start()])
                        rty = self.var_type(x, g, recv.group(1)) if recv else None
                        if rty is None or re.findall(IDENT, rty.replace("const", ""))[-1:] and re.findall(IDENT, rty.replace("const", ""))[-1] not in fam:
                            continue
                    if g is None and x.class_at(m.start()) is None and fam is not None:
                        continue
                pre = t[max(0, m.start() - 3):m.start()]
                if re.search(r"(\.|->)\s*$", pre) and f is not None:
                    continue      # a member of another object with the same name
                sa, sb = x.statement_at(m.start(), m.end())
                stmt = t[sa:sb]
                rel = m.start() - sa
                after = stmt[rel + len(name):]
                before = stmt[:rel]
                # a parameter in the head of its function
                if g is not None and g.head <= m.start() < g.body_start and not re.search(r"\)\s*(const\s*)?(noexcept\s*)?:", t[g.head:m.start()]):
                    continue
                if g is not None and g.head <= m.start() < g.body_start and re.match(r"\s*[({]", after) and re.search(r"[:,]\s*$", before):
                    continue      # the member being initialised in a constructor head
                if re.match(r"\s*(?:const\s+|static\s+)*(?:double|float|int|long|unsigned|bool|auto|size_t|u?int\d+_t|std::size_t)\b[^;()]*,\s*$", before) and re.match(r"\s*(=(?!=)|,|;)", after):
                    continue      # another declarator of a declaration list  T a = 0, b = 0;
                # the variable is being (re)defined here
                if re.match(r"\s*((\.|->)\s*\w+\s*|\[[^\]]*\]\s*)*(=(?!=)|\+=|-=|\*=|/=)", after) and not re.search(r"[=(,]$", before.rstrip()[-1:] or " "):
                    continue
                # plain declarations:  T name;   T name[N];   T name(args);   T name{...};   T name = ...
                if re.search(r"(?:^|[;{}(,:]|\b(?:const|static|mutable|inline|struct))\s*(?:[A-Za-z_][\w:]*(?:\s*<[^;{}]*>)?)\s*(?:const\s*)?[&*]*\s*$", before) and \
                        not re.search(r"\b(return|delete|throw|else|case|new|and|or|not)\s*$", before) and re.match(r"\s*(;|,|\)|\[|\(|\{|=(?!=))", after) and \
                        re.search(r"[A-Za-z_>&*]\s*$", before) and not re.search(r"[(,]\s*$", before):
                    continue
                if re.match(r"\s*[({]\s*(0|0\.0|false|nullptr|)\s*[)}]", after) and re.search(r"[,:]\s*$", before):
                    continue      # member initialiser with a constant
                # address taken as out-parameter of a root (already handled at the root)
                if re.search(r"&\s*$", before) and re.search(r"\b(" + "|".join(self.OUTPARAM_ROOTS) + r")\s*\([^()]*$", before):
                    continue
                # extend over  .member  /  .method()  / [i]
                end = m.end()
                mm = re.match(r"(\s*(\.|->)\s*\w+(\s*\(\s*\))?|\s*\[[^\]]*\])+", t[end:end + 80])
                if mm:
                    end += mm.end()
                self.consume(x, m.start(), end, name, root)

    def follow_func(self, f, root):
        nm = f.name.split("::")[-1]
        rx = re.compile(r"(?<![\w])" + re.escape(nm) + r"\s*\(")
        for x in self.sources:
            t = x.bare
            for m in rx.finditer(t):
                g = x.func_at(m.start())
                if g is not None and g.name.split("::")[-1] == nm and g.head <= m.start() < g.body_start:
                    continue       # its own definition head
                pre = t[max(0, m.start() - 50):m.start()]
                if g is None and (x.class_at(m.start()) is not None or re.search(r"[\w>&*]\s+$", pre)):
                    continue       # a declaration
                if re.search(r"[\w>&*]\s+(\w+\s*::\s*)?$", pre) and not re.search(r"\b(return|else|and|or|not|case)\s+$", pre):
                    continue       # another definition head (out of class)
                rp = match_paren(t, m.end() - 1)
                self.consume(x, m.start(), (rp + 1) if rp > 0 else m.end(), nm + "()", root)

    def ref_member_sites(self, name, root, cls=None):
        """a tainted member that is a REFERENCE bound to a constructor parameter (StopWatch::timer): the variable passed
        at every construction site of the class is tainted as well"""
        for x in self.sources:
            for cname, hs, op, cl in x.classes:
                if cls and cname != cls:
                    continue
                body = x.bare[op:cl]
                if not re.search(r"&\s*" + re.escape(name) + r"\s*;", body):
                    continue
                for g in x.funcs:
                    if g.name.split("::")[-1] != cname or not (op <= g.head <= cl):
                        continue
                    head = x.bare[g.head:g.body_start]
                    mi = re.search(r"[:,]\s*" + re.escape(name) + r"\s*[({]\s*(" + IDENT + r")\s*[)}]", head)
                    ps = self._params(g)
                    if not mi or mi.group(1) not in ps:
                        continue
                    idx = ps.index(mi.group(1))
                    rx = re.compile(r"(?:(?<![~\w])" + re.escape(cname) + r"\b\s*(?:" + IDENT + r"\s*)?|\bmake_(?:unique|shared)\s*<\s*(?:\w+\s*::\s*)*" + re.escape(cname) + r"\s*>\s*)[({]")
                    for y in self.sources:
                        for m in rx.finditer(y.bare):
                            if re.search(r"\b(class|struct|friend)\s+$", y.bare[max(0, m.start() - 12):m.start()]):
                                continue
                            if y is x and op <= m.start() <= cl and (y.func_at(m.start()) is None or y.func_at(m.start()).head <= m.start() < y.func_at(m.start()).body_start):
                                continue      # declarations / definition heads inside the class itself
                            lp = m.end() - 1
                            rp = match_paren(y.bare, lp) if y.bare[lp] == "(" else y.bare.find("}", lp)
                            if rp < 0:
                                continue
                            args = split_top(y.bare[lp + 1:rp])
                            if idx >= len(args) or not args[idx]:
                                continue
                            am = re.fullmatch(r"(?:this\s*->\s*)?((?:" + IDENT + r"\s*(?:\.|->)\s*)*)(" + IDENT + r")", args[idx])
                            if not am:
                                self.use(y, m.start(), cname + "(...)", "ASinkUnknown", root, "constructor argument not an identifier")
                                continue
                            fy = y.func_at(m.start())
                            self.use(y, m.start(), am.group(2), "ASinkAssign", root, "-> %s (bound to %s::%s by the constructor)" % (am.group(2), cname, name))
                            self.taint_var(y, fy, am.group(2), root, m.start())

    # ---------------------------------------------------------------------------------------
    # E. libc PRNG, <random> engines, getenv, threads
    # ---------------------------------------------------------------------------------------
    def scan_misc(self):
        for s in self.sources:
            t = s.bare
            for m in re.finditer(r"(?<![\w.>:])(?:std\s*::\s*|::\s*)?(rand|random_shuffle)\s*\(", t):
                pre = t[max(0, m.start() - 30):m.start()]
                if re.search(r"\b(int|long|double|static|inline)\s+$", pre):
                    continue
                self.add(s, m.start(), "KLibcRand", m.group(1), [], "libc generator: state is process-global, seeded by srand (default 1)")
            for m in re.finditer(r"(?<![\w.>:])(?:std\s*::\s*|::\s*)?srand\s*\(", t):
                rp = match_paren(t, m.end() - 1)
                arg = re.sub(r"\s+", "", s.code[m.end():rp])
                if re.fullmatch(r"\d+[uUlL]*", arg):
                    a = "ASeedConst"
                elif re.fullmatch(r"(\w+(\.|->))*getRandomSeed\(\)|(\w+(\.|->))*sat_random_seed\(\)", arg):
                    a = "ASeedConfig"
                else:
                    a = "ASeedOther"
                self.add(s, m.start(), "KLibcSrand", "srand(%s)" % arg[:40], [a])
            for m in re.finditer(r"\b(?:std\s*::\s*)?(mt19937(?:_64)?|default_random_engine|minstd_rand0?|ranlux\d+(?:_base)?|knuth_b)\b\s*(" + IDENT + r")?\s*([({][^;]*?[)}])?\s*;", t):
                arg = re.sub(r"\s+", "", m.group(3) or "")[1:-1]
                if arg == "":
                    a = "ASeedDefault"
                elif re.fullmatch(r"\d+[uUlL]*", arg):
                    a = "ASeedConst"
                elif re.search(r"getRandomSeed|random_seed|seed", arg) and not re.search(r"random_device|time|clock|now", arg):
                    a = "ASeedConfig"
                else:
                    a = "ASeedOther"
                self.add(s, m.start(), "KEngine", "%s %s" % (m.group(1), m.group(2) or ""), [a], "seed argument: %s" % (arg or "(none)"))
            for m in re.finditer(r"(?<![\w.>])(?:std\s*::\s*|::\s*)?(getenv|secure_getenv)\s*\(", t):
                rp = match_paren(t, m.end() - 1)
                self.add(s, m.start(), "KGetenv", re.sub(r"\s+", "", s.code[m.end():rp])[:40], [])
            for m in re.finditer(r"\bstd\s*::\s*(thread|jthread|async)\b(?!\s*::)|\bpthread_create\s*\(|(?<![\w.>])fork\s*\(|#\s*pragma\s+omp\b", t):
                self.add(s, m.start(), "KThread", re.sub(r"\s+", "", m.group(0))[:30], [])

    # ---------------------------------------------------------------------------------------
    def run(self):
        self.scan_containers()
        self.scan_sorts()
        self.scan_pointer_values()
        self.scan_entropy()
        self.scan_misc()
        self.apply_allowlist()
        self.facts.sort(key=lambda f: (f.file, f.line, f.kind, f.ident, ",".join(f.attrs)))
        return self.facts

    def apply_allowlist(self):
        entries = []
        if os.path.exists(ALLOW):
            for ln in open(ALLOW):
                ln = ln.strip()
                if not ln or ln.startswith("#"):
                    continue
                parts = [p.strip() for p in ln.split("|")]
                if len(parts) != 5:
                    raise TranslateError("allowlist line not understood: " + ln)
                entries.append(parts)
        self.allow_used = {i: 0 for i in range(len(entries))}
        for f in self.facts:
            for i, (kind, func, ident, attr, why) in enumerate(entries):
                if kind == f.kind and func == f.func and ident == f.ident and attr in f.attrs:
                    f.attrs = sorted(set(f.attrs + ["AAllow"]))
                    f.note = ("ALLOWLIST: %s; " % why) + f.note
                    self.allow_used[i] += 1
        self.allow_entries = entries


# ------------------------------------------------------------------------------------------------
# drand / irand constants
# ------------------------------------------------------------------------------------------------

def random_constants(sources):
    pat = re.compile(r"seed\s*\*=\s*(\d+)\s*;\s*int\s+q\s*=\s*\(\s*int\s*\)\s*\(\s*seed\s*/\s*(\d+)\s*\)\s*;\s*seed\s*-=\s*\(\s*double\s*\)\s*q\s*\*\s*(\d+)\s*;\s*return\s+seed\s*/\s*(\d+)\s*;")
    found = []
    for s in sources:
        for m in pat.finditer(s.bare):
            found.append((s.rel, s.line_of(m.start()), m.groups()))
    main = [f for f in found if f[0] == "src/common/Random.h"]
    if not main:
        raise TranslateError("drand body not recognised in src/common/Random.h")
    mult, mod = main[0][2][0], main[0][2][1]
    for rel, line, g in found:
        if g != (mult, mod, mod, mod):
            raise TranslateError("drand copy at %s:%d carries other constants %s" % (rel, line, g))
    ir = 0
    for s in sources:
        ir += len(re.findall(r"return\s*\(\s*int\s*\)\s*\(\s*drand\s*\(\s*seed\s*\)\s*\*\s*size\s*\)\s*;", s.bare))
    if ir < 1:
        raise TranslateError("irand body not recognised")
    cfg = next((s for s in sources if s.rel == "src/options/SMTConfig.h"), None)
    m = re.search(r"getRandomSeed\s*\(\s*\)\s*const\s*\{\s*return\s+optionTable\.has\(o_random_seed\)\s*\?\s*optionTable\[o_random_seed\]->getValue\(\)\.numval\s*:\s*(\d+)\s*;", cfg.bare if cfg else "")
    if not m:
        raise TranslateError("SMTConfig::getRandomSeed not recognised")
    return mult, mod, m.group(1), len(found), found


def gen_random_v(sources):
    mult, mod, seed, copies, found = random_constants(sources)
    return "\n".join([
        "(* GENERATED by translate/repro_facts.py from src/common/Random.h (drand/irand) and SMTConfig::getRandomSeed — do not edit. *)",
        "From Coq Require Import ZArith.", "Open Scope Z_scope.", "",
        "(* seed *= rnd_mult;  q = (int)(seed / rnd_mod);  seed -= (double)q * rnd_mod;  return seed / rnd_mod; *)",
        "Definition rnd_mult : Z := %s." % mult,
        "Definition rnd_mod : Z := %s." % mod,
        "(* SMTConfig::getRandomSeed(): value used when :random-seed is not set *)",
        "Definition default_seed : Z := %s." % seed,
        "(* number of textual copies of the drand body in src (%s) that all carry the same two constants *)" % ", ".join("%s:%d" % (r, l) for r, l, _ in found),
        "Definition drand_copies : nat := %d." % copies, ""])


# ------------------------------------------------------------------------------------------------
# Coq output
# ------------------------------------------------------------------------------------------------

def coq_str(s):
    s = s.replace('"', "'")
    s = "".join(ch if 32 <= ord(ch) < 127 else "?" for ch in s)
    return '"' + s + '"'


def comment_safe(s):
    return s.replace("(*", "( *").replace("*)", "* )").replace('"', "'")


def gen_facts_v(sc):
    out = ["(* GENERATED by translate/repro_facts.py from the text of every source file under src — do not edit.",
           "   %d source files; %s *)" % (len(sc.sources), comment_safe(", ".join("%s = %s" % kv for kv in sorted(sc.stats.items())))),
           "From Coq Require Import String List.", "From OsmtV.Repro Require Import ReproFacts.", "Import ListNotations.", "Open Scope string_scope.", "",
           "Definition facts : list fact := ["]
    rows = []
    for f in sc.facts:
        rows.append("  (* %s *)\n  mkFact %s %d %s %s %s [%s]" % (
            comment_safe(f.note)[:300], coq_str(f.file), f.line, coq_str(f.func), coq_str(f.ident), f.kind, "; ".join(f.attrs)))
    out.append(";\n".join(rows))
    out.append("].")
    out.append("")
    out.append("Definition files_scanned : nat := %d." % len(sc.sources))
    return "\n".join(out) + "\n"


def write_if_changed(path, new):
    old = open(path).read() if os.path.exists(path) else None
    if old != new:
        os.makedirs(os.path.dirname(path), exist_ok=True)
        open(path, "w").write(new)
        print("regenerated", path)


def scan():
    sc = Scanner()
    sc.run()
    return sc


def main():
    try:
        sc = scan()
        facts_v = gen_facts_v(sc)
        random_v = gen_random_v(sc.sources)
    except (TranslateError, OSError) as e:
        print("TRANSLATE-ERROR repro_facts: %s" % e)
        return 2
    write_if_changed(OUT_FACTS, facts_v)
    write_if_changed(OUT_RANDOM, random_v)
    if "--list" in sys.argv:
        for f in sc.facts:
            print("%-46s %-5d %-22s %-40s %-34s %s\n        %s" % (f.file, f.line, f.kind, f.func[:40], f.ident[:34], " ".join(f.attrs), f.note[:200]))
        print(sc.stats)
        for i, n in sc.allow_used.items():
            if n == 0:
                print("note: allowlist entry not matched by any fact:", " | ".join(sc.allow_entries[i][:4]))
    return 0


if __name__ == "__main__":
    sys.exit(main())
