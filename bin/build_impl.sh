#!/bin/bash
# Build /repo's current working tree with the verification hooks enabled into /verif/build/impl
# (incremental; ninja picks up every edited source by mtime). Serialised by a file lock.
set -e
B=/verif/build/impl
mkdir -p /verif/build
exec 9>/verif/build/.impl.lock
flock 9
if [ ! -f $B/build.ninja ]; then
  cmake -G Ninja -S /repo -B $B -DCMAKE_BUILD_TYPE=Release -DPACKAGE_TESTS=OFF \
        -DBUILD_SHARED_LIBS=OFF -DCMAKE_CXX_FLAGS="-DOPENSMT_VERIF" > $B.cmake.log 2>&1 || { cat $B.cmake.log; exit 2; }
fi
if ! ninja -C $B -j16 > $B.ninja.log 2>&1; then
  tail -40 $B.ninja.log
  exit 2
fi
