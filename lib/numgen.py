"""Boundary-aimed integer / rational generators shared by the arithmetic checks."""
BOUNDS = [0, 1, 2, 3, 7, 10, 2**15, 2**16, 2**31 - 2, 2**31 - 1, 2**31, 2**31 + 1, 2**32 - 2, 2**32 - 1, 2**32, 2**32 + 1,
          2**53 - 1, 2**53, 2**53 + 1, 2**62, 2**63 - 1, 2**63, 2**63 + 1, 2**64 - 1, 2**64, 2**64 + 1, 10**20, 10**40 + 7]


def boundary_ints():
    s = set()
    for b in BOUNDS:
        for x in (b, -b):
            s.add(x)
    return sorted(s)


def rand_int(rng):
    k = rng.random()
    if k < 0.45:
        b = rng.choice(BOUNDS)
        v = b + rng.randint(-3, 3)
        return v if rng.random() < 0.5 else -v
    if k < 0.7:
        return rng.randint(-50, 50)
    if k < 0.9:
        a, b = rng.choice(BOUNDS), rng.choice(BOUNDS)
        v = rng.choice([a * b, a + b, a - b, a * b + 1, a * b - 1])
        return v if rng.random() < 0.5 else -v
    return rng.randint(-10**rng.randint(1, 45), 10**rng.randint(1, 45))
