"""Exercise of the EXTRACTED Coq interpolation model (coq/Itp/Labelled.v, PathItp.v, coq/Front/ItpRequest.v through
ocaml/itp_driver.ml) on generated propositional refutations: every interpolant the extracted `impl_itp` / `path_itps`
computes is re-checked by truth table against the property's own statement (A |= I, I /\\ B unsat, atoms shared,
I_i /\\ G_{i+1} |= I_{i+1}).  This is an instance check of the theorems on the extracted code (extraction + driver
glue), NOT a tie to the C++ code: no hook exports the solver's proof DAG with its partition masks (see design/C08.md).
"""
import itertools
import vlib
import smtlib

_exe = None


def exe():
    global _exe
    if _exe is None:
        _exe, log = vlib.build_extracted("itp")
        if not _exe:
            raise RuntimeError("extraction of coq/Itp failed: " + log[-800:])
    return _exe


def ask(lines):
    rc, out = vlib.sh([exe()], input="\n".join(lines) + "\n", timeout=120)
    res = out.strip().split("\n") if out.strip() else []
    return rc, res


# ---- random refutations ---------------------------------------------------------------------------

def random_cnf(rng, nv, ncl):
    cls = []
    for _ in range(ncl):
        w = rng.choice([1, 2, 2, 3])
        vs = rng.sample(range(nv), min(w, nv))
        cls.append(frozenset((v, rng.random() < 0.5) for v in vs))
    return cls


def refutation(rng, clauses, limit=4000):
    """Saturate by resolution until the empty clause appears. Returns list of nodes ('L', idx) / ('R', i, j, p) in
    topological order restricted to the ancestors of the empty clause, or None."""
    known = {}
    order = []
    for i, c in enumerate(clauses):
        if c not in known:
            known[c] = ("L", i)
            order.append(c)
    frontier = list(order)
    steps = 0
    while frozenset() not in known and frontier and steps < limit:
        c = frontier.pop(rng.randrange(len(frontier)))
        for d in list(order):
            for (v, s) in c:
                if (v, not s) in d:
                    pos, neg = (c, d) if s else (d, c)
                    r = frozenset(l for l in pos if l != (v, True)) | frozenset(l for l in neg if l != (v, False))
                    if any((w, not t) in r for (w, t) in r):
                        continue
                    steps += 1
                    if r not in known:
                        known[r] = ("R", pos, neg, v)
                        order.append(r)
                        frontier.append(r)
        if frozenset() in known:
            break
    if frozenset() not in known:
        return None
    # ancestors of the empty clause, in derivation order
    need, stack = set(), [frozenset()]
    while stack:
        c = stack.pop()
        if c in need:
            continue
        need.add(c)
        k = known[c]
        if k[0] == "R":
            stack += [k[1], k[2]]
    seq = [c for c in order if c in need]
    index = {c: i for i, c in enumerate(seq)}
    nodes = []
    for c in seq:
        k = known[c]
        nodes.append(("L", k[1]) if k[0] == "L" else ("R", index[k[1]], index[k[2]], k[3]))
    return nodes


def encode_nodes(nodes, clauses, masks):
    out = []
    for n in nodes:
        if n[0] == "L":
            c = clauses[n[1]]
            lits = " ".join(str((v + 1) if s else -(v + 1)) for (v, s) in sorted(c))
            out.append("L %s / %s" % (lits, ",".join(map(str, masks[n[1]]))))
        else:
            out.append("R %d %d %d" % (n[1], n[2], n[3]))
    return " ; ".join(out)


def feval(sx, a):
    if sx == "true":
        return True
    if sx == "false":
        return False
    if isinstance(sx, str):
        return a[int(sx[1:])]
    if sx[0] == "not":
        return not feval(sx[1], a)
    if sx[0] == "and":
        return all(feval(x, a) for x in sx[1:])
    if sx[0] == "or":
        return any(feval(x, a) for x in sx[1:])
    raise ValueError(sx)


def fvars(sx):
    if isinstance(sx, str):
        return {int(sx[1:])} if sx.startswith("v") else set()
    out = set()
    for x in sx[1:]:
        out |= fvars(x)
    return out


def ctrue(c, a):
    return any(a[v] == s for (v, s) in c)


def selftest(ctx, rng, n, want_path):
    """n random instances; reports through ctx (tie_broken on any failure). Returns number of interpolants checked."""
    checked = 0
    inst = 0
    tries = 0
    while inst < n and tries < 20 * n:
        tries += 1
        nv = rng.randint(2, 5)
        clauses = random_cnf(rng, nv, rng.randint(nv + 2, 3 * nv + 3))
        nodes = refutation(rng, clauses)
        if nodes is None:
            continue
        nparts = rng.randint(2, 4)
        masks = []
        for _ in clauses:
            m = {rng.randrange(nparts)}
            if rng.random() < 0.15:
                m.add(rng.randrange(nparts))
            masks.append(sorted(m))
        used = sorted({n_[1] for n_ in nodes if n_[0] == "L"})
        enc = encode_nodes(nodes, clauses, masks)
        inst += 1
        assigns = [dict(enumerate(bits)) for bits in itertools.product([False, True], repeat=nv)]
        # variable partitions from the occurrences in the proof leaves (what the driver computes)
        vparts = {}
        for i in used:
            for (v, _) in clauses[i]:
                vparts.setdefault(v, set()).update(masks[i])
        parts = list(range(nparts))
        rng.shuffle(parts)
        k = rng.randint(2, nparts)
        cuts = sorted(rng.sample(range(1, nparts), k - 1))
        groups = [parts[a:b] for a, b in zip([0] + cuts, cuts + [nparts])]
        cum = []
        acc = []
        for g in groups[:-1]:
            acc = acc + g
            cum.append(list(acc))
        for alg in range(6):
            lines = ["itp %d %s | %s" % (alg, ",".join(map(str, A)), enc) for A in cum]
            lines.append("path %d %s | %s" % (alg, " / ".join(",".join(map(str, g)) for g in groups), enc))
            rc, res = ask(lines)
            if rc != 0 or len(res) != len(lines):
                ctx.tie_broken("extracted-model:driver", "rc=%s output=%s" % (rc, res[:3]), dict(request=lines))
                return checked
            path_res = [x.strip() for x in res[-1].split(" ; ")]
            itps = []
            for A, r in zip(cum, res[:-1]):
                if r == "none" or r.startswith("error"):
                    ctx.tie_broken("extracted-model:itp-none", "the extracted itp returns %s on a valid refutation" % r, dict(request=lines))
                    return checked
                sx = smtlib.read_all(r)[0]
                itps.append(sx)
                As = [clauses[i] for i in used if set(masks[i]) & set(A)]
                Bs = [clauses[i] for i in used if set(masks[i]) - set(A)]
                okA = all(feval(sx, a) for a in assigns if all(ctrue(c, a) for c in As))
                okB = not any(feval(sx, a) for a in assigns if all(ctrue(c, a) for c in Bs))
                shared = {v for v, ps in vparts.items() if ps & set(A) and ps - set(A)}
                okV = fvars(sx) <= shared
                checked += 1
                ctx.case(key=("model", enc, alg, tuple(A)), nontrivial=sx not in ("true", "false"), kind="extracted-model:itp:alg%d" % alg)
                if not (okA and okB and okV):
                    ctx.tie_broken("extracted-model:not-an-interpolant",
                                   "alg %d A=%s: A|=I %s, I/\\B unsat %s, symbols shared %s; I = %s" % (alg, A, okA, okB, okV, r),
                                   dict(proof=enc, A=A))
            if path_res != [r for r in res[:-1]]:
                ctx.tie_broken("extracted-model:path-differs", "path_itps is not map itp over the cumulative masks", dict(request=lines, answers=res))
            if want_path:
                for i in range(len(itps) - 1):
                    G = [clauses[j] for j in used if (set(masks[j]) & set(cum[i + 1])) and not (set(masks[j]) & set(cum[i]))]
                    ok = all(feval(itps[i + 1], a) for a in assigns if feval(itps[i], a) and all(ctrue(c, a) for c in G))
                    ctx.case(key=("model-path", enc, alg, i), nontrivial=True, kind="extracted-model:path-step:alg%d" % alg)
                    checked += 1
                    if not ok:
                        ctx.tie_broken("extracted-model:path-step", "alg %d: I_%d /\\ G_%d does not imply I_%d" % (alg, i + 1, i + 2, i + 2),
                                       dict(proof=enc, groups=groups))
    return checked


REFUTED_WITNESSES = [
    # (driver line, expected answer)  — the witnesses of request_mask_correct_refuted and the repaired variant
    ("mask 0 R+9 A+1 A+2 A+3 | 0 / 1,2", "impl ((1)) spec ((0))"),
    ("mask 1 R+9 A+1 A+2 A+3 | 0 / 1,2", "impl ((0)) spec ((0))"),
    ("mask 0 A+1 P A+2 O A+2 A+3 | 2 / 0,3", "impl ((1)) spec ((2))"),
    ("mask 0 A-1 A+1 A+1 A-0 | 2,1,3 / 0", "impl ((1 3)) spec ((2 1 3))"),
    ("mask 0 A+1 A-0 A+0 | 1,2 / 0", "impl none spec ((1 2))"),
    ("mask 0 A+1 A-2 A+3 AF | 3,0 / 1,2", "impl ((3)) spec ((3 0))"),
    ("mask 0 A+1 P A+2 A-3 | 0,2 / 1", "impl ((0 2)) spec ((0 2))"),
]


def mask_witnesses(ctx):
    rc, res = ask([w for w, _ in REFUTED_WITNESSES])
    for (w, want), got in zip(REFUTED_WITNESSES, res + ["(missing)"] * len(REFUTED_WITNESSES)):
        ctx.case(key=("mask", w), nontrivial=True, kind="extracted-model:request-mask")
        if got.strip() != want:
            ctx.tie_broken("extracted-model:request-mask", "%s: got %s, expected %s" % (w, got, want), dict(request=w))
