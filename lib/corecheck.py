"""Shared helpers of the unsat-core checks C06 / C07 (owner: wp-cores).

* interpret(text): the assertion stack with names (top-level and nested), option state and history (what was popped,
  which earlier check-sat answers were unsat under frames that are gone) at every query command;
* parse of (get-unsat-core) answers, oracle/evaluator judgements with a cache, root-cause classification of the
  known defects, trace (hook) parsing and the extracted-model driver protocol.
"""
import os
import re
import threading

import vlib
import smtlib
import solvercheck as sc
from smtlib import sx_str, read_all, Elab, ParseError

QUERY = ("check-sat", "get-unsat-core", "get-model", "get-value", "get-assignment", "get-interpolants", "get-proof", "echo",
         "get-info", "get-option")


class State:
    """Snapshot at a query command."""
    __slots__ = ("kind", "idx", "cmd", "frames", "opts", "popped_names", "popped_terms", "frame_ids", "unsat_frames_gone", "sig",
                 "popped_named", "history")


def nested_names(t, top=True, out=None):
    """names attached to strict subterms of an assertion body (and the top-level name separately)"""
    out = [] if out is None else out
    if isinstance(t, list) and t:
        if t[0] == "!" and ":named" in t:
            if not top:
                out.append((t[t.index(":named") + 1], t[1]))
            nested_names(t[1], False, out)
        else:
            for x in t[1:] if t[0] != "let" else t:
                nested_names(x, False, out)
    return out


def interpret(text):
    """Returns (states, sig).  Frames: list of dict(id, items=[(body sx, top name or None, [(nested name, subterm sx)])])."""
    script = sc.Script(text)
    qs = script.run()
    sig = script.sig
    cmds = script.cmds
    opts = {":produce-unsat-cores": False, ":minimal-unsat-cores": False, ":print-cores-full": False}
    frames = [dict(id=0, items=[])]
    nid = [0]
    popped_names, popped_terms = set(), []
    popped_named = {}          # name -> body of the (latest) popped assertion / subterm that carried it
    history = []               # every assertion body ever asserted, in order
    gone_since_unsat = []      # patched by note_unsat (answers are not known here)
    states = []
    answers_unsat = {}
    for idx, c in enumerate(cmds):
        if not isinstance(c, list) or not c:
            continue
        k = c[0]
        if k == "set-option" and len(c) >= 3 and c[1] in opts:
            opts[c[1]] = c[2] == "true"
        elif k == "assert":
            t = c[1]
            name, body = None, t
            if isinstance(t, list) and t and t[0] == "!" and ":named" in t:
                name, body = t[t.index(":named") + 1], t[1]
            frames[-1]["items"].append((body, name, nested_names(t)))
            frames[-1].setdefault("pos", []).append(len(history))     # position of the assertion in the history
            history.append(body)
        elif k == "push":
            for _ in range(int(c[1]) if len(c) > 1 else 1):
                nid[0] += 1
                frames.append(dict(id=nid[0], items=[]))
        elif k == "pop":
            for _ in range(int(c[1]) if len(c) > 1 else 1):
                if len(frames) > 1:
                    f = frames.pop()
                    for body, name, nest in f["items"]:
                        popped_terms.append(body)
                        if name:
                            popped_names.add(name)
                            popped_named[name] = body
                        for n, sub in nest:
                            popped_names.add(n)
                            popped_named[n] = sub
        elif k in QUERY:
            s = State()
            s.kind, s.idx, s.cmd = k, idx, c
            s.frames = [dict(id=f["id"], items=list(f["items"]), pos=list(f.get("pos", []))) for f in frames]
            s.opts = dict(opts)
            s.popped_names = set(popped_names)
            s.popped_terms = list(popped_terms)
            s.popped_named = dict(popped_named)
            s.history = list(history)
            s.frame_ids = [f["id"] for f in frames]
            s.unsat_frames_gone = list(gone_since_unsat)
            s.sig = sig
            states.append(s)
    return states, sig


def note_unsat(states, i):
    """to be called by the caller when the answer of states[i] (a check-sat) is unsat: later states learn which frames
    were live.  (interpret cannot know answers; the caller patches the states in order.)"""
    live = set(states[i].frame_ids)
    for s in states[i + 1:]:
        gone = [f for f in live if f not in s.frame_ids]
        s.unsat_frames_gone = sorted(set(s.unsat_frames_gone) | set(gone))


def view(state):
    """(top_named: name -> body, unnamed: [body], nested: name -> subterm, all_bodies)"""
    top, unnamed, nest, allb = {}, [], {}, []
    for f in state.frames:
        for body, name, ns in f["items"]:
            allb.append(body)
            if name:
                top[name] = body
            else:
                unnamed.append(body)
            for n, t in ns:
                nest[n] = t
    return top, unnamed, nest, allb


def reasserted_later(state, logic=None, decls=None, budget=60):
    """is there a CURRENT assertion whose term was asserted again LATER in the history (in any frame, popped or not)?
    That is the situation in which FlaPartitionMap overwrites the index the clauses of the earlier assertion carry.
    Term identity is approximated by the normal form `norm`; with logic/decls given, undecided pairs over the same
    symbols are referred to z3 (bounded by budget)."""
    hist = [norm(b) for b in state.history]
    pairs = []
    for f in state.frames:
        for (body, _, _), i in zip(f["items"], f.get("pos", [])):
            for j in range(i + 1, len(hist)):
                if hist[j] == hist[i]:
                    return True
                pairs.append((body, state.history[j]))
    if logic is None:
        return False
    def syms(t, acc):
        if isinstance(t, list):
            for x in t:
                syms(x, acc)
        else:
            acc.add(t)
        return acc
    boolops = {"and", "or", "not", "=>", "true", "false"}
    key = lambda ab: 0 if syms(sc.strip_named(ab[0]), set()) - boolops == syms(sc.strip_named(ab[1]), set()) - boolops else 1
    for a, b in sorted(pairs, key=key)[:budget]:
        if equivalent(logic, decls, a, b):
            return True
    return False


def _simp(t):
    """construction-time simplification, roughly: names stripped, => expanded, double negation, neutral constants and
    duplicates of and/or removed, one-argument and/or collapsed (arguments NOT flattened)"""
    t = sc.strip_named(t)
    if not isinstance(t, list) or not t:
        return t
    h = t[0]
    if h == "=>" and len(t) >= 3:
        return _simp(["or"] + [["not", a] for a in t[1:-1]] + [t[-1]])
    args = [_simp(x) for x in t[1:]]
    if h == "not" and len(args) == 1 and isinstance(args[0], list) and args[0] and args[0][0] == "not":
        return args[0][1]
    if h in ("and", "or"):
        neutral = "true" if h == "and" else "false"
        seen, out = set(), []
        for a in args:
            k = sx_str(a)
            if k == neutral or k in seen:
                continue
            seen.add(k)
            out.append(a)
        if not out:
            return neutral
        if len(out) == 1:
            return out[0]
        return [h] + out
    return [h] + args


def needs_flattening(t):
    """does the Boolean structure of the (construction-simplified) term have an and directly below an and / an or directly
    below an or?  (MainSolver::rewriteMaxArity then produces a different term before clausification)"""
    def walk(x):
        if not isinstance(x, list) or not x:
            return False
        if x[0] in ("and", "or") and any(isinstance(a, list) and a and a[0] == x[0] for a in x[1:]):
            return True
        if x[0] in ("and", "or", "not", "xor", "=", "ite"):
            return any(walk(a) for a in x[1:])
        return False
    return walk(_simp(t))


def rewritten_form_is_another_assertion(state):
    """is there a CURRENT assertion that preprocessing flattens and whose flattened form is, as it stands, another
    top-level assertion of the history (popped or not)?  PartitionManager::getPartitionIndex(rewritten term) then finds
    that other assertion's index first (top_level_flas before other_flas)."""
    hist = state.history
    flat = {norm(h) for h in hist if not needs_flattening(h)}
    for f in state.frames:
        for body, _, _ in f["items"]:
            if needs_flattening(body) and norm(body) in flat:
                return True
    return False


def preprocessed_form_is_another_assertion(state, logic, decls, budget=80):
    """semantic generalisation of rewritten_form_is_another_assertion (violation path only; untrusted z3): a CURRENT
    assertion is equivalent to another top-level assertion of the history that is written differently (simplification may
    turn the one into the other's term)"""
    if rewritten_form_is_another_assertion(state):
        return True
    hist = state.history
    hn = [norm(h) for h in hist]
    n = 0
    for f in state.frames:
        for (body, _, _), i in zip(f["items"], f.get("pos", [])):
            for j, h in enumerate(hist):
                if j == i or hn[j] == hn[i]:
                    continue
                n += 1
                if n > budget:
                    return False
                if equivalent(logic, decls, body, h):
                    return True
    return False


def false_assertion_and_first_popped(state, logic, decls):
    """a current assertion is unsatisfiable on its own (it is, or simplifies to, false) and the first assertion of the script
    has been popped: the initial unit clause (not false) of MainSolver::initialize carries partition bit 0"""
    if not state.history:
        return False
    first_current = any(i == 0 for f in state.frames for i in f.get("pos", []))
    if first_current:
        return False
    for f in state.frames:
        for body, _, _ in f["items"]:
            a = _memo(("alone", logic, tuple(decls), sx_str(sc.strip_named(body))),
                      lambda b=body: sc.ref_answer("z3", lg(logic), decls, [b], timeout=30)[0])
            if a == "unsat":
                return True
    return False


def has_ite(t):
    t = sc.strip_named(t)
    return isinstance(t, list) and bool(t) and (t[0] == "ite" or any(has_ite(x) for x in t[1:]))


def has_nonbool_ite(t, sig):
    if isinstance(t, list) and t:
        if t[0] == "ite" and len(t) == 4:
            try:
                if Elab(sig).infer(t[2], {}) != "B":
                    return True
            except (ParseError, Exception):
                return True
        return any(has_nonbool_ite(x, sig) for x in t[1:])
    return False


# ---------------------------------------------------------------------------------------------
# judgements (cached; thread safe)
# ---------------------------------------------------------------------------------------------
_cache, _lock = {}, threading.Lock()


def _memo(key, fn):
    with _lock:
        if key in _cache:
            return _cache[key]
    v = fn()
    with _lock:
        _cache[key] = v
    return v


def _key(kind, logic, decls, A):
    return (kind, logic, tuple(decls), sx_str([sc.strip_named(a) for a in A]))


def lg(logic):
    return "QF_UF" if logic == "QF_BOOL" else logic


def _retry(fn, tries=40, wait=3.0):
    """other checks running at the same time may rebuild the extracted evaluators (vlib.build_extracted removes the old
    executable first): a missing executable is retried, never taken for an answer"""
    import time
    for k in range(tries):
        try:
            return fn()
        except (FileNotFoundError, PermissionError, OSError):
            if k == tries - 1:
                raise
            time.sleep(wait)


def run_aligned(text, **kw):
    """solvercheck.run_aligned, retried while the binary is being relinked by a concurrent build"""
    return _retry(lambda: sc.run_aligned(text, **kw))


def judge_unsat(sig, logic, decls, A):
    """'agree' | 'refuted-certified' | 'refuted-oracles' | 'undecided'  (+ detail)"""
    return _memo(_key("u", logic, decls, A), lambda: _retry(lambda: sc.judge_unsat(sig, lg(logic), decls, A)))


def own_model_certifies(sig, logic, decls, A):
    """opensmt's own model of the flat assertion set through the verified evaluator"""
    text = sc.flat_script(decls, lg(logic), [sc.strip_named(a) for a in A], extra_opts=(":produce-models true",)) + "(get-model)\n"
    rc, out, err = _retry(lambda: vlib.run_opensmt(text, timeout=10))
    try:
        sx = read_all(out)
    except ParseError:
        return False
    if len(sx) < 2 or sx[0] != "sat" or not isinstance(sx[1], list):
        return False
    ev = _retry(lambda: sc.evaluate(sig, sx[1], [sc.strip_named(a) for a in A]))
    return "error" not in ev and ev["ok"]


def judge_sat(sig, logic, decls, A):
    """'certified' (verified evaluator accepted a model proposed by z3 or by opensmt) | 'unsat-oracles' (z3 and cvc5 say
    unsat) | 'undecided'"""
    def go():
        v, m = _retry(lambda: sc.certify_sat_with_oracle_model(sig, lg(logic), decls, A))
        if v == "certified":
            return "certified", "z3-model"
        if v == "oracle-unsat":
            c, _ = sc.ref_answer("cvc5", lg(logic), decls, A)
            if c == "unsat":
                return "unsat-oracles", None
            if c == "sat" and own_model_certifies(sig, logic, decls, A):
                return "certified", "own-model(z3 said unsat)"
            return "undecided", "z3 unsat, cvc5 %s" % c
        if own_model_certifies(sig, logic, decls, A):
            return "certified", "own-model"
        return "undecided", "%s: %s" % (v, m)
    return _memo(_key("s", logic, decls, A), go)


def equivalent(logic, decls, a, b):
    """untrusted: True = z3 says  a <-> b  is valid, False = z3 has a distinguishing model, None = no answer"""
    if sx_str(sc.strip_named(a)) == sx_str(sc.strip_named(b)):
        return True
    def go():
        ans, _ = sc.ref_answer("z3", lg(logic), decls, [["distinct", sc.strip_named(a), sc.strip_named(b)]], timeout=30)
        return True if ans == "unsat" else False if ans == "sat" else None
    return _memo(("eq", logic, tuple(decls), sx_str(sc.strip_named(a)), sx_str(sc.strip_named(b))), go)


def equivalent_to_some(logic, decls, a, others):
    """True: some element is equivalent; False: z3 distinguishes a from every element; None: undecided"""
    undecided = False
    for b in others:
        e = equivalent(logic, decls, a, b)
        if e:
            return True
        if e is None:
            undecided = True
    return None if undecided else False


def represented(logic, decls, u, terms):
    """is the script assertion u among the solver's terms?  Equivalent to one of them, or -- when u contains an ite that the
    solver replaced by an auxiliary constant with its definition -- entailed by one of the rewritten terms (untrusted z3)"""
    e = equivalent_to_some(logic, decls, u, terms)
    if e or not has_ite(u):
        return e
    for t in terms:
        if ".ite" not in sx_str(t):
            continue
        def go(t=t):
            ans, _ = sc.ref_answer("z3", lg(logic), decls, [t, ["not", sc.strip_named(u)]], timeout=30)
            return ans
        a = _memo(("ent", logic, tuple(decls), sx_str(t), sx_str(sc.strip_named(u))), go)
        if a == "unsat":
            return True
    return e


def norm(t):
    """cheap syntactic normal form (string) approximating opensmt's term identity: names stripped, => expanded, and/or
    flattened, arguments of commutative operators sorted, duplicates and neutral constants of and/or removed"""
    t = sc.strip_named(t)
    if not isinstance(t, list) or not t:
        return t
    h = t[0]
    args = [norm(x) for x in t[1:]]
    if h == "=>" and len(args) >= 2:
        return norm(["or"] + [["not", a] for a in t[1:-1]] + [t[-1]])
    if h == "not" and len(args) == 1:
        if args[0].startswith("(not ") and args[0].endswith(")"):
            return args[0][5:-1]
        return "(not %s)" % args[0]
    if h in ("and", "or"):
        flat = []
        for a, raw in zip(args, t[1:]):
            raw = sc.strip_named(raw)
            if isinstance(raw, list) and raw and raw[0] == h:
                inner = norm(raw)
                flat += _split_top(inner) if inner.startswith("(" + h + " ") else [inner]
            else:
                flat.append(a)
        neutral = "true" if h == "and" else "false"
        flat = sorted(set(x for x in flat if x != neutral))
        if not flat:
            return neutral
        if len(flat) == 1:
            return flat[0]
        return "(%s %s)" % (h, " ".join(flat))
    if h in ("=", "distinct", "xor", "+", "*"):
        args = sorted(args)
    return "(%s %s)" % (h, " ".join(args))


def _split_top(s):
    """arguments of a printed application (op a1 ... an)"""
    x = read_all(s)[0]
    return [sx_str(y) for y in x[1:]]


def all_equivalent(logic, decls, pairs):
    """untrusted: z3 says every pair is equivalent (one query)"""
    pairs = [(sc.strip_named(a), sc.strip_named(b)) for a, b in pairs]
    pairs = [(a, b) for a, b in pairs if sx_str(a) != sx_str(b)]
    if not pairs:
        return True
    def go():
        f = ["or"] + [["distinct", a, b] for a, b in pairs] if len(pairs) > 1 else ["distinct", pairs[0][0], pairs[0][1]]
        ans, _ = sc.ref_answer("z3", lg(logic), decls, [f], timeout=30)
        return ans == "unsat"
    return _memo(("eqs", logic, tuple(decls), sx_str([list(p) for p in pairs])), go)


def symbols_known(t, sig):
    try:
        Elab(sig).elab(t, {}, "B")
        return True
    except (ParseError, Exception):
        return False


AUX = re.compile(r"^\.ite[0-9]+_[0-9]+$")


def with_aux_symbols(terms, sig, decls):
    """opensmt replaces non-Boolean ite terms of an assertion by fresh constants `.ite<N>_<k>` (IteHandler); formulas printed
    by the solver may contain them.  Returns (sig', decls') with these constants declared at the sort that makes every
    term well-sorted, or None."""
    import copy
    aux = set()
    def walk(t):
        if isinstance(t, list):
            for x in t:
                walk(x)
        elif AUX.match(t):
            aux.add(t)
    for t in terms:
        walk(t)
    if not aux:
        return sig, list(decls)
    sig2 = copy.deepcopy(sig)
    cands = [("I", "Int"), ("R", "Real")] + [(("U", i), n) for n, i in sig.usorts.items()]
    ns = sig.num_sort()
    if ns:
        cands = [c for c in cands if c[0] == ns or isinstance(c[0], tuple)]
    cands.append(("B", "Bool"))      # a Bool-sorted ite below an uninterpreted function / predicate is replaced as well
    decl2 = list(decls)
    for a in sorted(aux):
        done = False
        for srt, name in cands:
            sig2.funs[a] = ((), srt)
            sig2.id_of(a)
            ok = True
            for t in terms:
                if a in sx_str(t).replace("(", " ").replace(")", " ").split():
                    probe = copy.copy(sig2)
                    probe.funs = dict(sig2.funs)
                    for b in aux:
                        if b not in probe.funs:
                            probe.funs[b] = ((), srt)      # provisional: same sort
                    try:
                        Elab(probe).elab(t, {}, "B")
                    except (ParseError, Exception):
                        ok = False
                        break
            if ok:
                decl2.append("(declare-fun %s () %s)" % (a, name))
                done = True
                break
        if not done:
            return None
    try:
        for t in terms:
            Elab(sig2).elab(t, {}, "B")
    except (ParseError, Exception):
        return None
    return sig2, decl2


# ---------------------------------------------------------------------------------------------
# trace of the minimisation hook (proposed_hooks/C07_minimize.diff)
# ---------------------------------------------------------------------------------------------
class MinBlock:
    def __init__(self):
        self.mode, self.current, self.contains = None, None, None
        self.terms, self.bg, self.targets, self.checks, self.result, self.complete, self.begun = {}, [], [], [], None, False, False


def parse_min_trace(trace_text):
    """list of MinBlock, one per call of UnsatCoreBuilder::minimize (= per get-unsat-core that minimised); a block
    without (min-begin ...) had no targets (Minimize::perform returns before creating the inner solver)."""
    blocks, cur = [], None
    terms = {}
    for line in trace_text.split("\n"):
        if not line.startswith("(min-"):
            continue
        if line.startswith("(min-mode"):
            m = re.match(r"^\(min-mode named \(current \(([0-9 ]*)\)\) \(contains \(([01 ]*)\)\)\)$", line)
            cur = MinBlock()
            if m:
                cur.mode, cur.current, cur.contains = "named", [int(x) for x in m.group(1).split()], [x == "1" for x in m.group(2).split()]
            else:
                cur.mode = "full"
            blocks.append(cur)
        elif line.startswith("(min-term "):
            m = re.match(r"^\(min-term ([0-9]+) (.*)\)$", line)
            if m:
                terms[int(m.group(1))] = m.group(2)
        elif line.startswith("(min-begin"):
            m = re.match(r"^\(min-begin \(bg \(([0-9 ]*)\)\) \(targets \(([0-9 ]*)\)\)\)$", line)
            if cur is None or cur.begun:
                cur = MinBlock()
                blocks.append(cur)
            cur.begun = True
            cur.bg = [int(x) for x in m.group(1).split()]
            cur.targets = [int(x) for x in m.group(2).split()]
            cur.terms = dict(terms)
        elif line.startswith("(min-check") and cur is not None:
            m = re.match(r"^\(min-check ([0-9]+) \(([0-9 ]*)\) (sat|unsat|unknown)\)$", line)
            cur.checks.append((int(m.group(1)), [int(x) for x in m.group(2).split()], m.group(3)))
        elif line.startswith("(min-end") and cur is not None:
            m = re.match(r"^\(min-end \(([0-9 ]*)\)\)$", line)
            cur.result = [int(x) for x in m.group(1).split()]
            cur.complete = True
    return blocks


class CoreBlock:
    def __init__(self):
        self.full = self.minimal = None
        self.ders, self.leaves, self.parts, self.all, self.split, self.complete = [], [], [], None, None, False
        self.current = None
        self.orig = []


def parse_core_trace(trace_text):
    """list of CoreBlock, one per UnsatCoreBuilder::buildBody (hook proposed_hooks/C06_core_trace.diff)"""
    blocks, cur = [], None
    pending_orig = []         # (core-orig ..) lines are emitted by mapClausesToTerms, before the (core-begin ..) of their block
    for line in trace_text.split("\n"):
        if not line.startswith("(core-"):
            continue
        if line.startswith("(core-orig"):
            m = re.match(r"^\(core-orig ([0-9]+) ([0-9]+)\)$", line)
            pending_orig.append((int(m.group(1)), int(m.group(2))))
            continue
        if line.startswith("(core-begin"):
            m = re.match(r"^\(core-begin ([01]) ([01])\)$", line)
            cur = CoreBlock()
            cur.orig, pending_orig = pending_orig, []
            cur.full, cur.minimal = m.group(1) == "1", m.group(2) == "1"
            blocks.append(cur)
        elif cur is None:
            continue
        elif line.startswith("(core-der"):
            m = re.match(r"^\(core-der ([0-9]+) ([0-9]+) \(([0-9 ]*)\)\)$", line)
            cur.ders.append((int(m.group(1)), int(m.group(2)), [int(x) for x in m.group(3).split()]))
        elif line.startswith("(core-leaf"):
            m = re.match(r"^\(core-leaf ([0-9]+) \(([0-9 ]*)\)\)$", line)
            cur.leaves.append((int(m.group(1)), [int(x) for x in m.group(2).split()]))
        elif line.startswith("(core-part"):
            m = re.match(r"^\(core-part ([0-9]+) (-?[0-9]+|\([0-9 ]*\)) (.*)\)$", line)
            ix = m.group(2)
            ix = [int(x) for x in ix.strip("()").split()] if ix.startswith("(") else [int(ix)]
            cur.parts.append((int(m.group(1)), ix, m.group(3)))
        elif line.startswith("(core-current"):
            m = re.match(r"^\(core-current \(([0-9 ]*)\)\)$", line)
            cur.current = [int(x) for x in m.group(1).split()]
        elif line.startswith("(core-all"):
            m = re.match(r"^\(core-all \(([0-9 ]*)\)\)$", line)
            cur.all = [int(x) for x in m.group(1).split()]
            cur.complete = cur.full
        elif line.startswith("(core-split"):
            m = re.match(r"^\(core-split ([01]) \(([01 ]*)\) \(([0-9 ]*)\) \(([0-9 ]*)\)\)$", line)
            cur.split = (m.group(1) == "1", [x == "1" for x in m.group(2).split()], [int(x) for x in m.group(3).split()],
                         [int(x) for x in m.group(4).split()])
            cur.complete = True
    return blocks


def core_request(b, undef=4294967295):
    """driver request replaying a traced buildBody on the extracted model"""
    ders = ";".join("%d:%d:%s" % (c, t, ilist(ps)) for c, t, ps in b.ders)
    lm = ";".join("%d:%s" % (c, ilist(bits)) for c, bits in b.leaves)
    parts = ";".join("%d:%s" % (t, ilist(i)) for t, i, _ in b.parts)
    if b.full:
        ne, cont = "0", ""
    else:
        ne = "1" if b.split[0] else "0"
        cont = ";".join("%d:%d" % (t, 1 if c else 0) for t, c in zip(b.all, b.split[1]))
    orig = ";".join("%d:%d" % (r, o) for r, o in b.orig)
    return "core %d|%s|%s|%s|%d|%d|%s|%s|%s" % (undef, ders, lm, parts, 1 if b.full else 0, 1 if b.minimal else 0, ne, cont, orig)


def parse_core_ok(ans):
    f = ans[3:].split("|")
    g = lambda x: [int(y) for y in x.split(",")] if x.strip() else []
    return g(f[0]), g(f[1]), g(f[2]), g(f[3])


_hook = {}


def hook_present():
    """does the working-tree binary emit the minimisation trace?"""
    key = vlib.opensmt_bin()
    if key not in _hook:
        t = os.path.join(vlib.BUILD, "tmp", "hookprobe_%d.trace" % os.getpid())
        os.makedirs(os.path.dirname(t), exist_ok=True)
        text = ("(set-option :produce-unsat-cores true)(set-option :minimal-unsat-cores true)(set-logic QF_UF)(declare-fun a () Bool)"
                "(assert (! a :named n))(assert (! (not a) :named m))(check-sat)(get-unsat-core)\n")
        run_aligned(text, timeout=10, trace=t)
        txt = open(t).read() if os.path.exists(t) else ""
        if os.path.exists(t):
            os.remove(t)
        _hook[key] = ("(min-begin" in txt, "(core-begin" in txt)
    return _hook[key][0]


def core_hook_present():
    hook_present()
    return _hook[vlib.opensmt_bin()][1]


# ---------------------------------------------------------------------------------------------
# extracted model (coq/Core via ocaml/core_driver.ml)
# ---------------------------------------------------------------------------------------------
_core_exe = None


def core_exe():
    global _core_exe
    if _core_exe is None:
        _core_exe, log = vlib.build_extracted("core")
        if not _core_exe:
            raise RuntimeError("extraction of coq/Core failed: " + log)
    return _core_exe


def driver(lines):
    rc, out = _retry(lambda: vlib.sh([core_exe()], input="\n".join(lines) + "\n", timeout=120))
    res = out.strip().split("\n") if out.strip() else []
    if rc != 0 or len(res) != len(lines):
        raise RuntimeError("core driver: rc=%s, %d answers for %d requests: %s" % (rc, len(res), len(lines), out[-300:]))
    return res


def ilist(l):
    return ",".join(str(x) for x in l)


def table_str(tab):
    return ";".join("%s:%d" % (ilist(k), 1 if v else 0) for k, v in tab.items())


def parse_ok(ans):
    """'ok R|LOG' -> (R, [(list, bool)])"""
    body = ans[3:]
    r, lgs = body.split("|")
    R = [int(x) for x in r.split(",")] if r.strip() else []
    L = []
    for e in lgs.split(";") if lgs.strip() else []:
        l, a = e.split(":")
        L.append(([int(x) for x in l.split(",")] if l.strip() else [], a == "1"))
    return R, L
