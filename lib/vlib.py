"""Shared machinery of the /verif checks (see DESIGN.md §2.2).

A check is a python module  /verif/checks/<ID>.py  exposing

    META = {...}                  # manifest entry fields (level text, note, technique, theorems ...)
    def run(ctx): ...             # the tie (correspondence / trace refinement) and the failing-input search

The driver (bin/check) does:  coq build -> Properties_<ID>.v obligations -> run(ctx) -> decision ->
evidence.  Everything that is random derives from ctx.rng (seeded from VERIF_SEED).

Environment overrides (used to try the machinery on scratch copies of the repository, never by the
registered commands):  VERIF_REPO (default /repo), VERIF_BUILD (default /verif/build/impl).
"""
import fcntl
import glob
import hashlib
import json
import os
import random
import re
import shutil
import subprocess
import sys
import time

VERIF = os.path.dirname(os.path.dirname(os.path.abspath(__file__)))
REPO = os.environ.get("VERIF_REPO", "/repo")
BUILD = os.path.join(VERIF, "build")
IMPL = os.environ.get("VERIF_BUILD", os.path.join(BUILD, "impl"))
COQ = os.path.join(VERIF, "coq")
GUARD = "OPENSMT_VERIF"

# Axioms the standard library itself declares and that the brief allows when named in the trusted base.
ALLOWED_AXIOMS = {
    "functional_extensionality_dep", "FunctionalExtensionality.functional_extensionality_dep",
    "proof_irrelevance", "ProofIrrelevance.proof_irrelevance", "ClassicalFacts.proof_irrelevance",
    "classic", "Classical_Prop.classic", "JMeq_eq", "JMeq.JMeq_eq",
    "Eqdep.Eq_rect_eq.eq_rect_eq", "eq_rect_eq", "propositional_extensionality",
    "PropExtensionality.propositional_extensionality",
    "ClassicalDedekindReals.sig_forall_dec", "ClassicalDedekindReals.sig_not_dec",
    "FunctionalExtensionality.functional_extensionality_dep",
}

FORBIDDEN = re.compile(
    r"\b(Admitted|admit|Axiom|Axioms|Parameter|Parameters|Conjecture|Conjectures|Abort All)\b"
    r"|Unset\s+Guard|bypass_check|Admit\s+Obligations|-type-in-type|impredicative-set"
    r"|Unset\s+Universe\s+Checking|Unset\s+Positivity")


def sh(cmd, timeout=None, cwd=None, env=None, input=None):
    """Run a command, return (rc, stdout+stderr). rc = -9 on timeout."""
    try:
        p = subprocess.run(cmd, shell=isinstance(cmd, str), cwd=cwd, env=env, input=input,
                           stdout=subprocess.PIPE, stderr=subprocess.STDOUT, timeout=timeout,
                           text=True, errors="replace")
        return p.returncode, p.stdout
    except subprocess.TimeoutExpired as e:
        out = e.stdout or ""
        if isinstance(out, bytes):
            out = out.decode(errors="replace")
        return -9, out


class Lock:
    def __init__(self, name):
        os.makedirs(BUILD, exist_ok=True)
        self.path = os.path.join(BUILD, "." + name + ".lock")

    def __enter__(self):
        self.f = open(self.path, "w")
        fcntl.flock(self.f, fcntl.LOCK_EX)
        return self

    def __exit__(self, *a):
        fcntl.flock(self.f, fcntl.LOCK_UN)
        self.f.close()


# ---------------------------------------------------------------------------------------------
# builds
# ---------------------------------------------------------------------------------------------

def build_impl():
    """(Re)build the working tree of the repository with hooks on. Returns None or an error text."""
    if "VERIF_BUILD" in os.environ and os.environ.get("VERIF_NO_REBUILD"):
        return None
    if REPO != "/repo" or IMPL != os.path.join(BUILD, "impl"):
        # scratch copy: same recipe, other directories
        with Lock("impl-" + hashlib.md5(IMPL.encode()).hexdigest()[:8]):
            if not os.path.exists(os.path.join(IMPL, "build.ninja")):
                rc, out = sh(["cmake", "-G", "Ninja", "-S", REPO, "-B", IMPL, "-DCMAKE_BUILD_TYPE=Release",
                              "-DPACKAGE_TESTS=OFF", "-DBUILD_SHARED_LIBS=OFF",
                              "-DCMAKE_CXX_FLAGS=-D" + GUARD], timeout=600)
                if rc != 0:
                    return out[-3000:]
            rc, out = sh(["ninja", "-C", IMPL, "-j16"], timeout=3600)
            return None if rc == 0 else out[-3000:]
    rc, out = sh([os.path.join(VERIF, "bin", "build_impl.sh")], timeout=3600)
    return None if rc == 0 else out[-3000:]


def opensmt_bin():
    return os.path.join(IMPL, "opensmt")


def impl_lib():
    for c in ("lib/libopensmt.a", "src/api/libopensmt.a", "libopensmt.a"):
        p = os.path.join(IMPL, c)
        if os.path.exists(p):
            return p
    r = glob.glob(os.path.join(IMPL, "**", "libopensmt.a"), recursive=True)
    return r[0] if r else None


def src_include_flags():
    """-I flags for compiling a harness against the working tree's headers."""
    src = os.path.join(REPO, "src")
    dirs = [src] + [d for d, _, fs in os.walk(src) if any(f.endswith((".h", ".hpp")) for f in fs)]
    return ["-I" + d for d in dirs]


def compile_harness(name, extra_src=(), link_lib=True, flags=(), define_guard=True):
    """Compile /verif/harness/<name>.cc against the working tree; returns (path or None, log).
    Rebuilt whenever the harness source, the library or any header changed (make-like via a stamp)."""
    out_dir = os.path.join(BUILD, "harness" + ("" if IMPL.endswith("/build/impl") else "-" + hashlib.md5(IMPL.encode()).hexdigest()[:8]))
    os.makedirs(out_dir, exist_ok=True)
    src = os.path.join(VERIF, "harness", name + ".cc")
    exe = os.path.join(out_dir, name)
    with Lock("harness-" + name):
        deps = [src] + list(extra_src)
        lib = impl_lib() if link_lib else None
        if lib:
            deps.append(lib)
        hdrs = glob.glob(os.path.join(REPO, "src", "**", "*.h"), recursive=True) + \
            glob.glob(os.path.join(REPO, "src", "**", "*.hpp"), recursive=True)
        newest = max(os.path.getmtime(p) for p in deps + hdrs)
        if os.path.exists(exe) and os.path.getmtime(exe) >= newest:
            return exe, "up to date"
        cmd = ["g++", "-std=c++20", "-O1", "-w"] + (["-D" + GUARD] if define_guard else []) + list(flags) + \
            src_include_flags() + [src] + list(extra_src) + ["-o", exe]
        if lib:
            cmd += [lib]
        cmd += ["-lgmpxx", "-lgmp", "-lpthread"]
        rc, out = sh(cmd, timeout=900)
        if rc != 0:
            if os.path.exists(exe):
                os.remove(exe)
            return None, out[-4000:]
        return exe, out


def coq_project():
    """Regenerate coq/_CoqProject from the files on disk and the Makefile; returns list of .v files."""
    vs = sorted(os.path.relpath(p, COQ) for p in glob.glob(os.path.join(COQ, "**", "*.v"), recursive=True))
    vs = [v for v in vs if not v.startswith("scratch/")]
    txt = "-Q . OsmtV\n-arg -w -arg -all\n" + "\n".join(vs) + "\n"
    p = os.path.join(COQ, "_CoqProject")
    old = open(p).read() if os.path.exists(p) else None
    if old != txt or not os.path.exists(os.path.join(COQ, "Makefile")):
        open(p, "w").write(txt)
        sh("coq_makefile -f _CoqProject -o Makefile", cwd=COQ, timeout=120)
    return vs


def coq_build(targets=None, timeout=3000):
    """make -k -j16 (full .vo) of the development or of the given .vo targets. Returns (rc, log)."""
    with Lock("coq"):
        coq_project()
        cmd = "make -k -j16 " + (" ".join(targets) if targets else "")
        rc, out = sh("timeout %d %s" % (timeout, cmd), cwd=COQ, timeout=timeout + 30)
        return rc, out


def coq_scan_forbidden():
    """Forbidden vernacular anywhere in the development (comments are stripped first)."""
    bad = []
    for p in glob.glob(os.path.join(COQ, "**", "*.v"), recursive=True):
        txt = open(p, errors="replace").read()
        txt = strip_coq_comments(txt)
        for i, line in enumerate(txt.split("\n"), 1):
            if FORBIDDEN.search(line):
                bad.append("%s:%d: %s" % (os.path.relpath(p, VERIF), i, line.strip()[:120]))
            if re.search(r"^\s*(Variable|Variables|Hypothesis|Hypotheses|Context)\b", line):
                # allowed only inside a Section: checked structurally below
                pass
        bad += variables_outside_sections(p, txt)
    return bad


def strip_coq_comments(txt):
    out, depth, i, n = [], 0, 0, len(txt)
    instr = False
    while i < n:
        c2 = txt[i:i + 2]
        if not instr and c2 == "(*":
            depth += 1
            i += 2
            continue
        if not instr and depth and c2 == "*)":
            depth -= 1
            i += 2
            continue
        ch = txt[i]
        if depth == 0:
            if ch == '"':
                instr = not instr
            out.append(ch)
        elif ch == "\n":
            out.append(ch)
        i += 1
    return "".join(out)


def variables_outside_sections(path, txt):
    bad, depth = [], 0
    for i, line in enumerate(txt.split("\n"), 1):
        if re.match(r"^\s*Section\s+\w+", line):
            depth += 1
        elif re.match(r"^\s*End\s+\w+", line) and depth > 0:
            # may also close a Module; Modules do not nest Sections in this development
            depth -= 1
        elif re.match(r"^\s*(Variable|Variables|Hypothesis|Hypotheses)\b", line) and depth == 0:
            bad.append("%s:%d: %s outside a Section" % (os.path.relpath(path, VERIF), i, line.strip()[:80]))
        elif re.match(r"^\s*Module\s+\w+", line) and not line.strip().endswith(":= .") and ":=" not in line:
            depth += 1
    return bad


def coq_check_properties(pid):
    """Compile coq/Properties_<pid>.v on its own and read its Print Assumptions output.
    Returns dict(theorems=[...], built=bool, log=str, axioms={thm: [..]}, bad_axioms=[...])."""
    f = os.path.join(COQ, "Properties_%s.v" % pid)
    res = dict(theorems=[], built=False, log="", axioms={}, bad_axioms=[], file=f)
    if not os.path.exists(f):
        res["log"] = "missing " + f
        return res
    txt = strip_coq_comments(open(f).read())
    res["theorems"] = re.findall(r"^\s*(?:Theorem|Lemma|Corollary)\s+([A-Za-z0-9_']+)", txt, re.M)
    with Lock("coq"):
        rc, out = sh("timeout 900 coqc -Q . OsmtV -w -all Properties_%s.v" % pid, cwd=COQ, timeout=930)
    res["log"] = out[-6000:]
    res["built"] = rc == 0
    # parse Print Assumptions blocks
    names = re.findall(r"Print\s+Assumptions\s+([A-Za-z0-9_'.]+)\s*\.", txt)
    blocks = re.split(r"(?m)^(?=Closed under the global context|Axioms:|Section Variables:)", out)
    blocks = [b for b in blocks if b.startswith(("Closed under", "Axioms:", "Section Variables:"))]
    for nm, b in zip(names, blocks):
        if b.startswith("Closed"):
            res["axioms"][nm] = []
        else:
            ax = re.findall(r"(?m)^([A-Za-z_][A-Za-z0-9_'.]*)\s*:", b)
            ax = [a for a in ax if a not in ("Axioms", "Section")]
            res["axioms"][nm] = ax
            for a in ax:
                if a not in ALLOWED_AXIOMS and a.split(".")[-1] not in ALLOWED_AXIOMS:
                    res["bad_axioms"].append("%s uses %s" % (nm, a))
    if res["built"] and len(names) != len(blocks):
        res["bad_axioms"].append("Print Assumptions output not understood (%d names, %d blocks)" % (len(names), len(blocks)))
    missing = [t for t in res["theorems"] if t not in names]
    if missing:
        res["bad_axioms"].append("no Print Assumptions for: " + ", ".join(missing))
    return res


def build_extracted(area, timeout=900):
    """coq/Extract/Extract_<area>.v writes <area>_model.ml(i); compiled together with ocaml/<area>_driver.ml into
    build/ocaml/<area>/vmodel. Built in a private directory and moved into place atomically, so that a concurrent
    check using the previous binary is never left without one. Returns (exe or None, log)."""
    d = os.path.join(BUILD, "ocaml", area)
    os.makedirs(d, exist_ok=True)
    ex = os.path.join(COQ, "Extract", "Extract_%s.v" % area)
    drv = os.path.join(VERIF, "ocaml", "%s_driver.ml" % area)
    exe = os.path.join(d, "vmodel")
    coq_build(targets=["Extract/Extract_%s.vo" % area])   # every .vo the extraction file needs (and a throw-away extraction in coq/)
    with Lock("ocaml-" + area):
        vos = glob.glob(os.path.join(COQ, "**", "*.vo"), recursive=True)
        newest = max([os.path.getmtime(p) for p in vos + [ex, drv, os.path.join(VERIF, "ocaml", "bits.ml")]] or [0])
        if os.path.exists(exe) and os.path.getmtime(exe) >= newest:
            return exe, "up to date"
        w = os.path.join(d, ".build-%d" % os.getpid())
        shutil.rmtree(w, ignore_errors=True)
        os.makedirs(w)
        try:
            rc, out = sh("timeout %d coqc -Q %s OsmtV -w -all %s -o %s/Extract_%s.vo" % (timeout, COQ, ex, w, area), cwd=w, timeout=timeout + 30)
            if rc != 0:
                return None, "extraction failed:\n" + out[-3000:]
            shutil.copy(drv, os.path.join(w, "driver.ml"))
            shutil.copy(os.path.join(VERIF, "ocaml", "bits.ml"), os.path.join(w, "bits.ml"))
            mls = sorted(glob.glob(os.path.join(w, "*_model.ml")))
            if not mls:
                return None, "extraction produced no *_model.ml\n" + out[-2000:]
            files = []
            for m in mls:
                if os.path.exists(m + "i"):
                    files.append(os.path.basename(m) + "i")
                files.append(os.path.basename(m))
            rc, out2 = sh("ocamlfind ocamlopt -O2 -w -a -package str,zarith -linkpkg bits.ml %s driver.ml -o vmodel" % " ".join(files), cwd=w, timeout=600)
            if rc != 0 or not os.path.exists(os.path.join(w, "vmodel")):
                return None, "ocaml build failed:\n" + out2[-3000:]
            for m in mls:
                shutil.copy(m, d)
            os.replace(os.path.join(w, "vmodel"), exe)
            return exe, out + out2
        finally:
            shutil.rmtree(w, ignore_errors=True)


def extract_directives(area):
    ex = os.path.join(COQ, "Extract", "Extract_%s.v" % area)
    if not os.path.exists(ex):
        return []
    txt = strip_coq_comments(open(ex).read())
    ds = re.findall(r"(Extract\s+(?:Constant|Inductive|Inlined\s+Constant)[^.]*\.)", txt)
    reqs = re.findall(r"(Require\s+Import\s+Extr\w+|From\s+Coq\s+Require\s+Import\s+Extr\w+)", txt)
    return ["; ".join(reqs)] + [re.sub(r"\s+", " ", d) for d in ds]


# ---------------------------------------------------------------------------------------------
# running the solver
# ---------------------------------------------------------------------------------------------

def run_opensmt(script_text, args=(), timeout=20, pipe=False, env_extra=None, binary=None):
    """Run the hooked working-tree binary on a script (file mode by default). Returns (rc, stdout, stderr)."""
    binary = binary or opensmt_bin()
    env = dict(os.environ)
    if env_extra:
        env.update(env_extra)
    tmpd = os.path.join(BUILD, "tmp")
    os.makedirs(tmpd, exist_ok=True)
    for attempt in range(40):
        try:
            if pipe:
                p = subprocess.run([binary, "-p"] + list(args), input=script_text.encode(), stdout=subprocess.PIPE,
                                   stderr=subprocess.PIPE, timeout=timeout, env=env)
            else:
                path = os.path.join(tmpd, "s_%d_%d.smt2" % (os.getpid(), random.getrandbits(40)))
                with open(path, "w") as f:
                    f.write(script_text)
                try:
                    p = subprocess.run([binary] + list(args) + [path], stdout=subprocess.PIPE, stderr=subprocess.PIPE,
                                       timeout=timeout, env=env)
                finally:
                    os.remove(path)
            if p.returncode == 126 and not p.stdout:     # "cannot execute": binary being relinked
                time.sleep(0.5)
                continue
            return p.returncode, p.stdout.decode(errors="replace"), p.stderr.decode(errors="replace")
        except subprocess.TimeoutExpired:
            return -9, "", "timeout"
        except OSError:
            # the binary is being relinked by a concurrent incremental build (ETXTBSY / EACCES / ENOENT): wait and retry
            time.sleep(0.5)
    return -8, "", "binary not executable"


def run_ref(solver, script_text, timeout=20):
    """Untrusted reference solvers (search only). solver in {'z3','cvc5'}."""
    tmpd = os.path.join(BUILD, "tmp")
    os.makedirs(tmpd, exist_ok=True)
    path = os.path.join(tmpd, "r_%d_%d.smt2" % (os.getpid(), random.getrandbits(40)))
    with open(path, "w") as f:
        f.write(script_text)
    try:
        if solver == "z3":
            cmd = ["z3", "-T:%d" % timeout, path]
        else:
            cmd = ["cvc5", "--tlimit=%d" % (timeout * 1000), "--produce-models", "--incremental", path]
        rc, out = sh(cmd, timeout=timeout + 5)
        return rc, out
    finally:
        os.remove(path)


# ---------------------------------------------------------------------------------------------
# known findings
# ---------------------------------------------------------------------------------------------

def load_known():
    """known_findings/<ID>.json files (committed, never written at run time)."""
    out = []
    for p in sorted(glob.glob(os.path.join(VERIF, "known_findings", "*.json"))):
        try:
            out += json.load(open(p))["findings"]
        except Exception as e:  # a malformed file must not silence anything
            print("warning: cannot read %s: %s" % (p, e), file=sys.stderr)
    return out


# ---------------------------------------------------------------------------------------------
# the check context
# ---------------------------------------------------------------------------------------------

class Ctx:
    def __init__(self, pid, tier, seed):
        self.pid, self.tier, self.seed = pid, tier, seed
        self.rng = random.Random(seed * 1000003 + int(hashlib.md5(pid.encode()).hexdigest()[:6], 16))
        self.t0 = time.time()
        self.obligations = []       # (name, ok, detail)
        self.broken = []            # broken proofs / correspondences: (name, detail, first_case)
        self.violations = []        # property-level failing inputs: dict(signature, what, replay)
        self.known_hits = []
        self.evaluations = 0
        self.nontrivial = set()
        self.samples = []
        self.dist = {}
        self.notes = []
        self.extra = {}
        self.trusted = []
        self.assumptions = []
        self.rule = ""
        self.quick = tier == "quick"

    # --- bookkeeping used by check modules ---
    def oblige(self, name, ok, detail=""):
        self.obligations.append((name, bool(ok), detail))
        if not ok:
            self.broken.append((name, detail, None))

    def tie_broken(self, name, detail, case=None):
        """A correspondence / refinement / translator tie that no longer checks (not by itself a violation)."""
        self.broken.append((name, detail, case))

    def case(self, key=None, nontrivial=True, sample=None, kind=None):
        self.evaluations += 1
        if nontrivial and key is not None:
            self.nontrivial.add(key if isinstance(key, (str, int, tuple)) else json.dumps(key, sort_keys=True))
        if sample is not None and len(self.samples) < 6:
            self.samples.append(sample)
        if kind is not None:
            self.dist[kind] = self.dist.get(kind, 0) + 1

    def count(self, kind, n=1):
        self.dist[kind] = self.dist.get(kind, 0) + n

    def violation(self, signature, what, replay):
        """A concrete input/state/history on which the property itself fails.
        signature: short stable string naming the failing site (matched against known_findings.json)."""
        for k in load_known():
            if k.get("property") == self.pid and k.get("kind") == "known" and re.search(k["signature"], signature):
                if (k["signature"], k["what"]) not in [(a, b) for a, b, _ in self.known_hits]:
                    self.known_hits.append((k["signature"], k["what"], replay))
                return False
        self.violations.append(dict(signature=signature, what=what, replay=replay))
        return True

    def note(self, s):
        self.notes.append(s)

    def budget_left(self, total_s):
        return total_s - (time.time() - self.t0)


def write_replay(pid, name, obj):
    d = os.path.join(os.environ.get("VERIF_REPLAY_DIR", os.path.join(VERIF, "replays")), pid)
    os.makedirs(d, exist_ok=True)
    p = os.path.join(d, name)
    with open(p, "w") as f:
        if isinstance(obj, str):
            f.write(obj)
        else:
            json.dump(obj, f, indent=1, default=str)
    return p


def finish(ctx, meta):
    """Decide, print, write evidence, return exit code."""
    pid = ctx.pid
    rc = 0
    lines = []
    for sig, what, _ in ctx.known_hits:
        lines.append("KNOWN-FINDING: property=%s %s" % (pid, what))
    if ctx.violations:
        rc = 1
        seen = set()
        for i, v in enumerate(ctx.violations):
            if v["signature"] in seen:
                continue
            seen.add(v["signature"])
            p = write_replay(pid, "violation_%d.json" % len(seen), dict(property=pid, signature=v["signature"], what=v["what"],
                                                                       replay=v["replay"], seed=ctx.seed, tier=ctx.tier,
                                                                       broken=[b[:2] for b in ctx.broken]))
            lines.append("VIOLATION property=%s replay=%s" % (pid, p))
            if len(seen) >= 5:
                break
    elif ctx.broken:
        rc = 1
        p = write_replay(pid, "unproved.json", dict(
            property=pid, seed=ctx.seed, tier=ctx.tier,
            explanation="no concrete failing input was found; the following theorem(s)/correspondence(s) no longer check, "
                        "so the property is no longer shown to hold",
            broken=[dict(name=n, detail=d, first_case=c) for n, d, c in ctx.broken[:20]]))
        lines.append("VIOLATION property=%s replay=%s no-failing-input-found" % (pid, p))
    for l in lines:
        print(l)
    nob = len(ctx.obligations)
    ndis = sum(1 for _, ok, _ in ctx.obligations if ok)
    cov = dict(
        obligations=max(nob, 0), discharged=ndis,
        checker_cmd=meta.get("checker_cmd", "coqc -Q /verif/coq OsmtV Properties_%s.v (after make -k -j16 in /verif/coq); tie: bin/check %s" % (pid, pid)),
        trusted_base=meta.get("trusted_base", []) + ctx.trusted,
        theorems=[dict(name=n, discharged=ok, detail=d[:300]) for n, ok, d in ctx.obligations],
        evaluations=ctx.evaluations, distinct_nontrivial=len(ctx.nontrivial),
        rule=ctx.rule or meta.get("rule", ""), samples=ctx.samples[:6] or ["(no tie cases in this run)"],
        input_distribution=ctx.dist, notes=ctx.notes[:40],
        broken=[dict(name=n, detail=str(d)[:500]) for n, d, _ in ctx.broken[:20]],
        known_findings_hit=[w for _, w, _ in ctx.known_hits],
    )
    cov.update(ctx.extra)
    ev = dict(property_id=pid, tier=ctx.tier, seed=ctx.seed, level=meta.get("category", "proof"), coverage=cov,
              assumptions=meta.get("assumptions", []) + ctx.assumptions, wall_s=round(time.time() - ctx.t0, 2),
              violations=len(ctx.violations) + (1 if (ctx.broken and not ctx.violations) else 0))
    evdir = os.environ.get("VERIF_EVIDENCE_DIR", os.path.join(VERIF, "evidence"))   # scratch trials write elsewhere
    os.makedirs(evdir, exist_ok=True)
    with open(os.path.join(evdir, pid + ".json"), "w") as f:
        json.dump(ev, f, indent=1, default=str)
    return rc
