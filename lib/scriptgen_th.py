"""Generator of small SMT-LIB scripts that provoke many theory conflicts / propagations / splits
(work package C26 / C11).  Every choice derives from the `random.Random` handed in.

gen(rng, logic, engine=None, big=None) -> dict(text=..., logic=..., engine=..., features=[...])

Logics: QF_LRA QF_LIA QF_UF QF_UFLRA QF_UFLIA QF_RDL QF_IDL QF_AX QF_ALIA QF_ALRA QF_UFIDL QF_UFRDL.
Engines (SMTConfig options read before the solver is created, MainSolver::createInnerSolver):
  default | lookahead (:pure-lookahead) | picky (:picky) | ghost (:ghost-vars) | proofs (:produce-proofs)
  | itp (:produce-interpolants) | nosimp (:elim 0 — no variable elimination) | incr (:incremental 1)
"""

LA_LOGICS = ["QF_LRA", "QF_LIA", "QF_UFLRA", "QF_UFLIA"]
DL_LOGICS = ["QF_RDL", "QF_IDL"]
ALL_LOGICS = ["QF_LRA", "QF_LIA", "QF_UF", "QF_UFLRA", "QF_UFLIA", "QF_RDL", "QF_IDL", "QF_AX", "QF_ALIA",
              "QF_ALRA", "QF_UFIDL", "QF_UFRDL"]
ENGINES = ["default", "lookahead", "picky", "ghost", "proofs", "itp", "nosimp", "incr"]

ENGINE_OPTS = {
    "default": [],
    "lookahead": ["(set-option :pure-lookahead 1)"],
    "picky": ["(set-option :picky 1)"],
    "ghost": ["(set-option :ghost-vars 1)"],
    "proofs": ["(set-option :produce-proofs true)"],
    "itp": ["(set-option :produce-interpolants true)"],
    "nosimp": ["(set-option :elim 0)", "(set-option :do-substitutions 0)"],
    "incr": ["(set-option :incremental 1)"],
}

BIG = [2**31 - 1, 2**31, 2**32, 2**32 + 1, 2**53 + 1, 2**63 - 1, 2**63, 2**64, 2**64 + 1, 10**20 + 7, 3 * 2**70 + 1, 10**40 + 7]


def is_int_logic(logic):
    return logic in ("QF_LIA", "QF_UFLIA", "QF_IDL", "QF_ALIA", "QF_UFIDL", "QF_AUFLIA")


def has_uf(logic):
    return logic in ("QF_UF", "QF_UFLRA", "QF_UFLIA", "QF_UFIDL", "QF_UFRDL")


def has_arrays(logic):
    return logic in ("QF_AX", "QF_ALIA", "QF_ALRA", "QF_AUFLIA")


def is_dl(logic):
    return logic in ("QF_RDL", "QF_IDL", "QF_UFIDL", "QF_UFRDL")


def has_arith(logic):
    return logic not in ("QF_UF", "QF_AX")


def num(n, real=False, d=1):
    """SMT-LIB text of the rational n/d"""
    if d != 1:
        s = "(/ %d %d)" % (abs(n), d)
        return "(- %s)" % s if n < 0 else s
    s = str(abs(n)) + (".0" if real == "dec" else "")
    return "(- %s)" % s if n < 0 else s


class G:
    def __init__(self, rng, logic, big):
        self.r, self.logic, self.big = rng, logic, big
        self.int = is_int_logic(logic)
        self.sort = "Int" if self.int else "Real"
        self.decls = []
        self.nvars = rng.choice([2, 3, 3, 4, 4, 5, 6]) if not big == "many" else rng.randint(7, 12)
        self.vars = ["x%d" % i for i in range(self.nvars)]
        self.features = set()
        self.maxpool = rng.choice([10, 16, 24, 40])
        if has_arith(logic):
            for v in self.vars:
                self.decls.append("(declare-fun %s () %s)" % (v, self.sort))
        self.ufs = []
        self.usort = None
        if has_uf(logic):
            if logic == "QF_UF" or rng.random() < 0.3:
                self.usort = "U"
                self.decls.insert(0, "(declare-sort U 0)")
                self.uconsts = ["a%d" % i for i in range(rng.randint(3, 6))]
                for c in self.uconsts:
                    self.decls.append("(declare-fun %s () U)" % c)
                self.decls.append("(declare-fun f (U) U)")
                self.decls.append("(declare-fun g (U U) U)")
                self.decls.append("(declare-fun p (U) Bool)")
                self.decls.append("(declare-fun q (U U) Bool)")
            if has_arith(logic):
                self.decls.append("(declare-fun h (%s) %s)" % (self.sort, self.sort))
                self.decls.append("(declare-fun k (%s %s) %s)" % (self.sort, self.sort, self.sort))
                self.decls.append("(declare-fun pr (%s) Bool)" % self.sort)
        if has_arrays(logic):
            if logic == "QF_AX":
                self.decls.insert(0, "(declare-sort I 0)")
                self.decls.insert(1, "(declare-sort E 0)")
                self.isort, self.esort = "I", "E"
                self.idx = ["i%d" % i for i in range(rng.randint(2, 4))]
                self.elems = ["e%d" % i for i in range(rng.randint(2, 3))]
                for c in self.idx:
                    self.decls.append("(declare-fun %s () I)" % c)
                for c in self.elems:
                    self.decls.append("(declare-fun %s () E)" % c)
            else:
                self.isort = self.esort = self.sort
                self.idx = self.vars[: max(2, self.nvars // 2)]
                self.elems = self.vars[self.nvars // 2:] or self.vars
            self.arrs = ["A%d" % i for i in range(rng.randint(2, 3))]
            for a in self.arrs:
                self.decls.append("(declare-fun %s () (Array %s %s))" % (a, self.isort, self.esort))

    # ---- numbers -------------------------------------------------------------------------
    def coef(self):
        r = self.r
        if self.big == "big" and r.random() < 0.35:
            c = r.choice(BIG) + r.choice([0, 0, 1, -1])
            self.features.add("bigcoef")
        else:
            c = r.choice([1, 1, 1, 2, 2, 3, 4, 5, 7])
        if r.random() < 0.4:
            c = -c
        if not self.int and r.random() < 0.15:
            d = r.choice([2, 3, 4, 6, 7] + ([2**32 + 1, 2**64 + 3] if self.big == "big" else []))
            self.features.add("fraccoef")
            return (c, d)
        return (c, 1)

    def const(self):
        r = self.r
        if self.big == "big" and r.random() < 0.3:
            c = r.choice(BIG) * r.choice([1, -1]) + r.randint(-2, 2)
            self.features.add("bigconst")
        else:
            c = r.randint(-6, 6)
        if not self.int and r.random() < 0.15:
            return (c, r.choice([2, 3, 5, 10]))
        return (c, 1)

    def numtxt(self, cd):
        c, d = cd
        if d == 1 and not self.int and self.r.random() < 0.2:
            return num(c, "dec")
        return num(c, False, d)

    # ---- arithmetic terms ----------------------------------------------------------------
    def arith_leaf(self, depth=0):
        r = self.r
        if has_uf(self.logic) and depth < 2 and r.random() < 0.35:
            self.features.add("uf-arith")
            if r.random() < 0.7:
                return "(h %s)" % self.arith_term(depth + 1, small=True)
            return "(k %s %s)" % (self.arith_term(depth + 1, small=True), self.arith_term(depth + 1, small=True))
        if has_arrays(self.logic) and self.logic != "QF_AX" and depth < 2 and r.random() < 0.3:
            return "(select %s %s)" % (self.array_term(depth + 1), self.arith_term(depth + 1, small=True))
        return r.choice(self.vars)

    def arith_term(self, depth=0, small=False):
        r = self.r
        if is_dl(self.logic) and not has_uf(self.logic):
            return r.choice(self.vars)
        n = 1 if (small and r.random() < 0.7) else r.choice([1, 2, 2, 3, 3, 4] if self.big != "many" else [3, 4, 5, 6, 8])
        if is_dl(self.logic):
            return self.arith_leaf(depth)
        ms = []
        for _ in range(n):
            c = self.coef()
            v = self.arith_leaf(depth)
            if c == (1, 1) and r.random() < 0.8:
                ms.append(v)
            elif c == (-1, 1) and r.random() < 0.5:
                ms.append("(- %s)" % v)
            else:
                ms.append("(* %s %s)" % (self.numtxt(c), v) if r.random() < 0.8 else "(* %s %s)" % (v, self.numtxt(c)))
        if small is False and r.random() < 0.15:
            ms.append(self.numtxt(self.const()))
        if len(ms) == 1:
            return ms[0]
        if r.random() < 0.15 and len(ms) == 2:
            return "(- %s %s)" % (ms[0], ms[1])
        return "(+ %s)" % " ".join(ms)

    def arith_atom(self):
        r = self.r
        if is_dl(self.logic):
            x, y = r.sample(self.vars, 2)
            if has_uf(self.logic) and r.random() < 0.3:
                x = self.arith_leaf()
            op = r.choice(["<=", "<", ">=", ">", "<=", "<=", "="])
            if op in ("<", ">"):
                self.features.add("strict")
            if op == "=":
                self.features.add("eq")
            c = self.const() if not self.int else (self.const()[0], 1)
            if r.random() < 0.15:
                return "(%s %s %s)" % (op, x, y)
            return "(%s (- %s %s) %s)" % (op, x, y, self.numtxt(c))
        op = r.choice(["<=", "<=", "<", ">=", ">=", ">", "=", "distinct"] if r.random() < 0.5 else ["<=", "<", ">=", ">"])
        if op in ("<", ">"):
            self.features.add("strict")
        if op in ("=", "distinct"):
            self.features.add("eq")
        lhs = self.arith_term()
        rhs = self.numtxt(self.const()) if r.random() < 0.7 else self.arith_term(small=True)
        if r.random() < 0.05:
            return "(%s %s %s %s)" % (op if op != "distinct" else "<=", lhs, rhs, self.arith_term(small=True))
        return "(%s %s %s)" % (op, lhs, rhs)

    # ---- UF ------------------------------------------------------------------------------
    def uterm(self, depth=0):
        r = self.r
        if depth >= 2 or r.random() < 0.4:
            return r.choice(self.uconsts)
        if r.random() < 0.6:
            return "(f %s)" % self.uterm(depth + 1)
        return "(g %s %s)" % (self.uterm(depth + 1), self.uterm(depth + 1))

    def uf_atom(self):
        r = self.r
        x = r.random()
        if x < 0.55:
            return "(= %s %s)" % (self.uterm(), self.uterm())
        if x < 0.65:
            return "(distinct %s %s %s)" % (self.uterm(), self.uterm(), self.uterm())
        if x < 0.85:
            return "(p %s)" % self.uterm()
        return "(q %s %s)" % (self.uterm(), self.uterm())

    # ---- arrays --------------------------------------------------------------------------
    def idx_term(self, depth):
        if self.logic == "QF_AX":
            return self.r.choice(self.idx)
        return self.arith_term(depth + 1, small=True) if self.r.random() < 0.3 else self.r.choice(self.idx)

    def elem_term(self, depth):
        r = self.r
        if depth < 2 and r.random() < 0.5:
            return "(select %s %s)" % (self.array_term(depth + 1), self.idx_term(depth + 1))
        if self.logic == "QF_AX":
            return r.choice(self.elems)
        return self.arith_term(depth + 1, small=True) if r.random() < 0.3 else r.choice(self.elems)

    def array_term(self, depth=0):
        r = self.r
        if depth >= 2 or r.random() < 0.45:
            return r.choice(self.arrs)
        return "(store %s %s %s)" % (self.array_term(depth + 1), self.idx_term(depth + 1), self.elem_term(depth + 1))

    def array_atom(self):
        r = self.r
        x = r.random()
        if x < 0.4:
            return "(= %s %s)" % (self.array_term(), self.array_term())
        if x < 0.8 or self.logic != "QF_AX":
            return "(= %s %s)" % (self.elem_term(0), self.elem_term(0))
        return "(= %s %s)" % (r.choice(self.idx), r.choice(self.idx))

    # ---- formulas ------------------------------------------------------------------------
    def atom(self):
        r = self.r
        lg = self.logic
        if has_arrays(lg) and r.random() < (0.9 if lg == "QF_AX" else 0.5):
            return self.array_atom()
        if lg == "QF_AX":
            return self.array_atom()
        if self.usort and (lg == "QF_UF" or r.random() < 0.4):
            return self.uf_atom()
        if has_uf(lg) and has_arith(lg) and r.random() < 0.15:
            return "(pr %s)" % self.arith_term(small=True)
        return self.arith_atom()

    def lit(self, pool):
        r = self.r
        a = r.choice(pool) if pool and (r.random() < 0.55 or len(pool) >= self.maxpool) else self.atom()
        if a not in pool:
            pool.append(a)
        return "(not %s)" % a if r.random() < 0.4 else a

    def formula(self, pool):
        r = self.r
        x = r.random()
        if x < 0.08:
            return self.lit(pool)
        if x < 0.8:
            return "(or %s)" % " ".join(self.lit(pool) for _ in range(r.choice([2, 2, 3, 3, 4])))
        if x < 0.87 and has_arith(self.logic) and not is_dl(self.logic):
            self.features.add("ite")
            return "(%s (ite %s %s %s) %s)" % (r.choice(["<=", "<", ">=", "="]), self.lit(pool), self.arith_term(small=True),
                                                self.arith_term(small=True), self.numtxt(self.const()))
        if x < 0.93:
            return "(=> (and %s %s) %s)" % (self.lit(pool), self.lit(pool), self.lit(pool))
        return "(= %s (and %s %s))" % (self.lit(pool), self.lit(pool), self.lit(pool))


def _hdr(engine, logic, decls):
    return ENGINE_OPTS[engine] + ["(set-logic %s)" % logic] + decls


def gen_sched(rng, logic, engine):
    """One-machine scheduling with a horizon that is (almost) too short: pairwise disjunctions
    x_i + d_i <= x_j  or  x_j + d_j <= x_i  — many theory conflicts; difference-logic shaped unless scaled."""
    isint = is_int_logic(logic)
    sort = "Int" if isint else "Real"
    n = rng.randint(4, 6)
    vs = ["x%d" % i for i in range(n)]
    d = [rng.randint(1, 4) for _ in vs]
    H = sum(d) - rng.randint(0, 3)
    feats = {"sched"}
    big = rng.random() < 0.25
    off = rng.choice(BIG) if big else 0          # shift of the time origin: big constants
    if big:
        feats.add("bigconst")
    z = "z"
    decls = ["(declare-fun %s () %s)" % (v, sort) for v in vs + [z]]
    body = []
    dl = is_dl(logic)
    for v, dv in zip(vs, d):
        body.append("(assert (and (<= (- %s %s) %s) (<= (- %s %s) %s)))" % (z, v, num(-off), v, z, num(off + H - dv)))
    pairs = [(i, j) for i in range(n) for j in range(i + 1, n)]
    rng.shuffle(pairs)
    incremental = engine == "incr" or rng.random() < 0.3
    if engine == "itp":
        incremental = False
    for cnt, (i, j) in enumerate(pairs):
        if rng.random() < 0.9:
            if dl or rng.random() < 0.5:
                strict = rng.random() < 0.3
                if strict:
                    feats.add("strict")
                l1 = "(<= (- %s %s) %s)" % (vs[i], vs[j], num(-d[i]))
                l2 = "(%s (- %s %s) %s)" % ("<" if strict else "<=", vs[j], vs[i], num(-d[j] + (1 if strict and isint else 0)))
            else:
                a = rng.choice([2, 3, 5] + ([2**32 + 1, 2**64 + 1] if big else []))
                if a > 5:
                    feats.add("bigcoef")
                l1 = "(<= (+ (* %d %s) %d) (* %d %s))" % (a, vs[i], a * d[i], a, vs[j])
                l2 = "(>= (- %s %s) %d)" % (vs[i], vs[j], d[j])
            body.append("(assert (or %s %s))" % (l1, l2))
        if incremental and rng.random() < 0.15 and cnt > 2:
            body.append("(check-sat)")
            if rng.random() < 0.5:
                body.append("(push 1)")
                body.append("(assert (<= (- %s %s) %s))" % (rng.choice(vs), z, num(off + rng.randint(0, 2))))
                body.append("(check-sat)")
                body.append("(pop 1)")
                feats.add("pushpop")
    body.append("(check-sat)")
    return dict(text="\n".join(_hdr(engine, logic, decls) + body + ["(exit)"]) + "\n", logic=logic, engine=engine,
                big="big" if big else None, features=sorted(feats), family="sched")


def gen_grid(rng, logic, engine):
    """Bounded box, many clauses of fresh small linear atoms: theory-tight, Boolean-loose."""
    isint = is_int_logic(logic)
    sort = "Int" if isint else "Real"
    n = rng.randint(3, 5)
    H = rng.randint(3, 9)
    vs = ["x%d" % i for i in range(n)]
    feats = {"grid"}
    big = rng.random() < 0.3
    decls = ["(declare-fun %s () %s)" % (v, sort) for v in vs]
    body = []
    for v in vs:
        body.append("(assert (and (<= 0 %s) (<= %s %d)))" % (v, v, H))

    def coef():
        if big and rng.random() < 0.3:
            feats.add("bigcoef")
            return rng.choice(BIG) * rng.choice([1, -1])
        return rng.choice([1, 1, 2, 3, -1, -1, -2, -3])

    def cst():
        if big and rng.random() < 0.3:
            feats.add("bigconst")
            return rng.choice(BIG) * rng.choice([1, -1]) + rng.randint(-3, 3)
        return rng.randint(-H, 2 * H)
    incremental = engine == "incr" or rng.random() < 0.3
    if engine == "itp":
        incremental = False
    depth = 0
    m = rng.randint(15, 35)
    for cnt in range(m):
        lits = []
        for _ in range(rng.choice([2, 2, 3])):
            k = rng.choice([1, 2, 2, 3])
            ms = []
            for v in rng.sample(vs, min(k, n)):
                c = coef()
                if not isint and rng.random() < 0.1:
                    feats.add("fraccoef")
                    ms.append("(* %s %s)" % (num(c, False, rng.choice([2, 3, 7])), v))
                else:
                    ms.append("(* %s %s)" % (num(c), v))
            t = ms[0] if len(ms) == 1 else "(+ %s)" % " ".join(ms)
            op = rng.choice(["<=", "<", ">=", ">", "=", "<=", ">="])
            if op in ("<", ">"):
                feats.add("strict")
            if op == "=":
                feats.add("eq")
            lits.append("(%s %s %s)" % (op, t, num(cst())))
        body.append("(assert (or %s))" % " ".join(lits))
        if incremental and rng.random() < 0.12 and cnt > 5:
            body.append("(check-sat)")
            if depth and rng.random() < 0.5:
                body.append("(pop 1)")
                depth -= 1
            else:
                body.append("(push 1)")
                depth += 1
            feats.add("pushpop")
    body.append("(check-sat)")
    return dict(text="\n".join(_hdr(engine, logic, decls) + body + ["(exit)"]) + "\n", logic=logic, engine=engine,
                big="big" if big else None, features=sorted(feats), family="grid")


def gen_parity(rng, logic, engine):
    """Integer problems whose LP relaxation is feasible but has few/no integer points: branch-and-bound splits and cuts."""
    n = rng.randint(2, 4)
    vs = ["x%d" % i for i in range(n)]
    decls = ["(declare-fun %s () Int)" % v for v in vs]
    body = []
    H = rng.randint(3, 12)
    for v in vs:
        if rng.random() < 0.8:
            body.append("(assert (and (<= %s %s) (<= %s %d)))" % (num(-H), v, v, H))
    for _ in range(rng.randint(1, 3)):
        k = rng.choice([2, 3, 4, 6])
        ms = ["(* %s %s)" % (num(k * rng.choice([1, 2, 3, -1, -2])), v) for v in rng.sample(vs, min(n, rng.randint(2, 3)))]
        r = rng.randint(1, k - 1) + k * rng.randint(-2, 2)
        if rng.random() < 0.5:
            body.append("(assert (or (= (+ %s) %s) (> %s %d)))" % (" ".join(ms), num(r), vs[0], H))
        else:
            body.append("(assert (or (and (<= %s (+ %s)) (<= (+ %s) %s)) (> %s %d)))" % (num(r), " ".join(ms), " ".join(ms), num(r + rng.randint(0, k - 2)), vs[0], H))
    for _ in range(rng.randint(2, 8)):
        ms = ["(* %s %s)" % (num(rng.choice([1, 2, 3, 5, -1, -2, -3, -7])), v) for v in rng.sample(vs, min(n, rng.randint(1, 3)))]
        t = ms[0] if len(ms) == 1 else "(+ %s)" % " ".join(ms)
        l1 = "(%s %s %s)" % (rng.choice(["<=", ">=", "<", ">"]), t, num(rng.randint(-H, H)))
        ms = ["(* %s %s)" % (num(rng.choice([1, 2, 3, 5, -1, -2, -3, -7])), v) for v in rng.sample(vs, min(n, rng.randint(1, 3)))]
        t = ms[0] if len(ms) == 1 else "(+ %s)" % " ".join(ms)
        l2 = "(%s %s %s)" % (rng.choice(["<=", ">=", "<", ">"]), t, num(rng.randint(-H, H)))
        body.append("(assert (or %s %s))" % (l1, l2))
    body.append("(check-sat)")
    return dict(text="\n".join(_hdr(engine, logic, decls) + body + ["(exit)"]) + "\n", logic=logic, engine=engine,
                big=None, features=["parity"], family="parity")


def gen_uf(rng, logic, engine):
    """QF_UF: few constants, a small pool of nested terms, many short clauses of (dis)equalities and predicates."""
    nc = rng.randint(4, 6)
    cs = ["a%d" % i for i in range(nc)]
    decls = ["(declare-sort U 0)"] + ["(declare-fun %s () U)" % c for c in cs] + [
        "(declare-fun f (U) U)", "(declare-fun g (U U) U)", "(declare-fun p (U) Bool)", "(declare-fun q (U U) Bool)"]
    pool = list(cs)
    for _ in range(rng.randint(10, 22)):
        if rng.random() < 0.6:
            pool.append("(f %s)" % rng.choice(pool))
        else:
            pool.append("(g %s %s)" % (rng.choice(pool), rng.choice(pool)))
    pool = [t for t in pool if t.count("(") <= 3]

    def atom():
        x = rng.random()
        if x < 0.7:
            a, b = rng.sample(pool, 2)
            return "(= %s %s)" % (a, b)
        if x < 0.8:
            return "(distinct %s)" % " ".join(rng.sample(pool, rng.choice([2, 3])))
        if x < 0.92:
            return "(p %s)" % rng.choice(pool)
        return "(q %s %s)" % (rng.choice(pool), rng.choice(pool))
    atoms = [atom() for _ in range(rng.randint(30, 70))]
    body = []
    incremental = engine == "incr" or rng.random() < 0.3
    if engine == "itp":
        incremental = False
    for cnt in range(rng.randint(60, 160)):
        lits = []
        for _ in range(rng.choice([2, 3, 3, 3])):
            a = rng.choice(atoms)
            lits.append("(not %s)" % a if rng.random() < 0.5 else a)
        body.append("(assert (or %s))" % " ".join(lits))
        if incremental and rng.random() < 0.1 and cnt > 8:
            body.append("(check-sat)")
            body.append(rng.choice(["(push 1)", "(push 1)", "(pop 1)"]) if False else "(push 1)")
    body.append("(check-sat)")
    return dict(text="\n".join(_hdr(engine, logic, decls) + body + ["(exit)"]) + "\n", logic=logic, engine=engine,
                big=None, features=["uf"], family="uf")


def gen_arrweak(rng, logic, engine):
    """Arrays: store chains, reads at equal-but-syntactically-different index terms, index classes with three and
    more members one of which has many parents (so that it becomes the E-graph root), store indices compared with
    members of the class, extensionality (array (dis)equalities).  Provokes the array solver's read-over-weak-
    equivalence conflicts/lemmas and weak-congruence lemmas.  Logics: QF_AX, QF_ALIA, QF_ALRA, QF_AUFLIA."""
    ax = logic == "QF_AX"
    isort = "Index" if ax else ("Int" if is_int_logic(logic) else "Real")
    esort = "Elem" if ax else isort
    decls = []
    if ax:
        decls += ["(declare-sort Index 0)", "(declare-sort Elem 0)"]
    narr = rng.randint(1, 3)
    arrs = ["a%d" % i for i in range(narr)]
    for a in arrs:
        decls.append("(declare-fun %s () (Array %s %s))" % (a, isort, esort))
    iarrs = ["ii", "jj"]
    for a in iarrs:
        decls.append("(declare-fun %s () (Array %s %s))" % (a, isort, isort))
    icon = ["u", "k", "m", "n", "w"][: rng.randint(3, 5)]
    for c in icon:
        decls.append("(declare-fun %s () %s)" % (c, isort))
    econ = ["v", "e", "d"][: rng.randint(1, 3)]
    for c in econ:
        decls.append("(declare-fun %s () %s)" % (c, esort))
    uf = logic == "QF_AUFLIA"
    if uf:
        decls.append("(declare-fun f (%s) %s)" % (isort, isort))
    # index terms: constants and compound terms of index sort
    iterms = list(icon)
    for _ in range(rng.randint(2, 4)):
        x = rng.random()
        base = rng.choice(iterms)
        if uf and x < 0.4:
            iterms.append("(f %s)" % base)
        elif not ax and x < 0.3:
            iterms.append("(+ %s %d)" % (base, rng.randint(1, 2)))
        else:
            iterms.append("(select %s %s)" % (rng.choice(iarrs), base))
    iterms = list(dict.fromkeys(iterms))
    # array terms: store chains
    aterms = list(arrs)
    for _ in range(rng.randint(1, 4)):
        aterms.append("(store %s %s %s)" % (rng.choice(aterms), rng.choice(iterms), rng.choice(econ)))
    aterms = list(dict.fromkeys(aterms))
    body = []
    # padding reads give one index term many parents: the E-graph prefers it as class root
    root = rng.choice(iterms)
    npad = rng.randint(0, 8)
    for i in range(npad):
        decls.append("(declare-fun c%d () (Array %s %s))" % (i, isort, esort))
        decls.append("(declare-fun p%d () %s)" % (i, esort))
        body.append("(assert (not (= (select c%d %s) p%d)))" % (i, root, i))

    def ieq():
        a, b = rng.sample(iterms, 2)
        return "(= %s %s)" % (a, b)

    def rd():
        return "(select %s %s)" % (rng.choice(aterms), rng.choice(iterms))

    def atom():
        x = rng.random()
        if x < 0.35:
            return ieq()
        if x < 0.7:
            return "(= %s %s)" % (rd(), rd() if rng.random() < 0.7 else rng.choice(econ))
        if x < 0.85 and len(aterms) > 1:
            a, b = rng.sample(aterms, 2)
            return "(= %s %s)" % (a, b)
        return "(= %s %s)" % (rng.choice(iterms), root)
    # the core pattern: I = J (different terms), a[I] /= chain(a)[J], store indices /= some member of the class
    for _ in range(rng.randint(1, 3)):
        I, J = rng.sample(iterms, 2)
        A = rng.choice(aterms)
        B = rng.choice([t for t in aterms if t.startswith("(store")] or aterms)
        body.append("(assert (= %s %s))" % (I, J) if rng.random() < 0.6 else "(assert (or (= %s %s) %s))" % (I, J, atom()))
        body.append("(assert (not (= (select %s %s) (select %s %s))))" % (A, I, B, J))
        other = rng.choice(iterms)
        kk = rng.choice(iterms)
        if other != kk:
            body.append("(assert (not (= %s %s)))" % (kk, other))
        body.append("(assert (or (= %s %s) (= %s %s)))" % (I, rng.choice(iterms), I, rng.choice(iterms)))
    for _ in range(rng.randint(3, 14)):
        lits = []
        for _ in range(rng.choice([1, 2, 2, 3])):
            a = atom()
            lits.append("(not %s)" % a if rng.random() < 0.45 else a)
        body.append("(assert %s)" % (lits[0] if len(lits) == 1 else "(or %s)" % " ".join(lits)))
    rng.shuffle(body)
    incremental = engine == "incr" or rng.random() < 0.25
    if engine == "itp":
        incremental = False
    if incremental and len(body) > 6:
        cut = rng.randint(3, len(body) - 2)
        body = body[:cut] + ["(check-sat)", "(push 1)"] + body[cut:] + ["(check-sat)", "(pop 1)"]
    body.append("(check-sat)")
    return dict(text="\n".join(_hdr(engine, logic, decls) + body + ["(exit)"]) + "\n", logic=logic, engine=engine,
                big=None, features=["arrweak"], family="arrweak")


def gen(rng, logic, engine=None, big=None, family=None):
    """big in {None,'big','many'}; family in {None,'random','sched','grid','parity'}"""
    engine = engine or rng.choice(ENGINES)
    if family is None:
        x = rng.random()
        if logic in ("QF_LRA", "QF_LIA"):
            family = "sched" if x < 0.3 else ("grid" if x < 0.6 else ("parity" if (x < 0.75 and logic == "QF_LIA") else "random"))
        elif logic in ("QF_RDL", "QF_IDL"):
            family = "sched" if x < 0.6 else "random"
        elif logic == "QF_UF":
            family = "uf" if x < 0.8 else "random"
        elif logic == "QF_AUFLIA":
            family = "arrweak"
        elif has_arrays(logic):
            family = "arrweak" if x < 0.6 else "random"
        else:
            family = "random"
    if family == "sched":
        return gen_sched(rng, logic, engine)
    if family == "grid":
        return gen_grid(rng, logic, engine)
    if family == "parity":
        return gen_parity(rng, logic, engine)
    if family == "uf":
        return gen_uf(rng, logic, engine)
    if family == "arrweak":
        return gen_arrweak(rng, logic, engine)
    r = gen_random(rng, logic, engine, big)
    r["family"] = "random"
    return r


def gen_random(rng, logic, engine=None, big=None):
    """big in {None,'big','many'}"""
    engine = engine or rng.choice(ENGINES)
    if big is None:
        big = rng.choice([None, None, "big", "many"] if has_arith(logic) else [None])
    g = G(rng, logic, big)
    pool = []
    lines = []
    incremental = engine == "incr" or rng.random() < 0.35
    if engine in ("itp",):
        incremental = False
    nassert = rng.randint(10, 45) if big != "many" else rng.randint(15, 50)
    body = []
    depth = 0
    nchecks = 0
    for i in range(nassert):
        if incremental and rng.random() < 0.2:
            if depth > 0 and rng.random() < 0.45:
                body.append("(pop 1)")
                depth -= 1
            else:
                body.append("(push 1)")
                depth += 1
            g.features.add("pushpop")
        body.append("(assert %s)" % g.formula(pool))
        if incremental and rng.random() < 0.25 and i > 3:
            body.append("(check-sat)")
            nchecks += 1
    body.append("(check-sat)")
    if incremental and rng.random() < 0.5:
        while depth > 0 and rng.random() < 0.7:
            body.append("(pop 1)")
            depth -= 1
        for _ in range(rng.randint(1, 4)):
            body.append("(assert %s)" % g.formula(pool))
        body.append("(check-sat)")
    lines += ENGINE_OPTS[engine]
    lines.append("(set-logic %s)" % logic)
    lines += g.decls
    lines += body
    lines.append("(exit)")
    return dict(text="\n".join(lines) + "\n", logic=logic, engine=engine, big=big, features=sorted(g.features))
