"""Shared tie machinery of C21 / C19: run a script (lib/scriptgen_names.py) through
  * harness/h_book.cc  (real Interpret, state dump after every command),
  * the extracted bookkeeping model (coq/Front/InterpBook.v via ocaml/names_driver.ml), in one or more variants,
  * the opensmt binary with echo markers,
and compare.  Term identifiers are canonicalised by order of first appearance over the whole run."""
import re

import scriptgen_names as sg
import vlib

VARIANTS = ["%d%d%d%d%d" % (a, b, c, d, e) for a in (0, 1) for b in (0, 1) for c in (0, 1) for d in (0, 1) for e in (0, 1)]
VARIANTS.sort(key=lambda v: (v.count("1"), v))
FIX_NAMES = ("eraseTermName drops empty entries", "assertions.push after insertFormula", "pop checks the bound first",
             "names of a rejected command rolled back", "TermNames::popScope guarded against a missing scope")
AS_IS = "00000"


def resp_kind(segment):
    s = segment.strip()
    if "(error" in s:
        return "err"
    return "out" if s else "ok"


def canon(lines):
    """rename t<num> by first appearance (jointly over all lines)"""
    m = {}

    def ren(mo):
        k = mo.group(0)
        if k not in m:
            m[k] = "T%d" % len(m)
        return m[k]
    return [re.sub(r"\bt\d+\b", ren, l) for l in lines], m


def run_harness(h_book, cmds, NF, timeout=60):
    """-> (segments, dumps, rc) ; segments[i] = interpreter output of command i"""
    rc, out = vlib.sh([h_book, str(NF)], input=sg.render(cmds), timeout=timeout)
    segs, dumps, cur = [], [], []
    for line in out.split("\n"):
        if line.startswith("#S "):
            segs.append("\n".join(cur))
            dumps.append(line[3:].strip())
            cur = []
        else:
            cur.append(line)
    return segs, dumps, rc, "\n".join(cur).strip()


def answers_of(cmds, segs):
    ans = []
    for c, s in zip(cmds, segs):
        if c.abs == "C?":
            first = s.strip().split("\n")[0].strip() if s.strip() else "unknown"
            ans.append(first if first in ("sat", "unsat") else "unknown")
    return ans


def run_model(exe, variant, lines, timeout=600):
    """lines: driver input lines (B ...). -> list (per script) of list of (resp, extra, dump) ; 'UB' entry ends a script"""
    rc, out = vlib.sh([exe, variant], input="\n".join(lines) + "\n", timeout=timeout)
    res, cur = [], []
    for l in out.split("\n"):
        if l == "END":
            res.append(cur)
            cur = []
        elif l == "UB":
            cur.append(("UB", "", ""))
        elif l:
            parts = l.split(" | ", 2)
            if len(parts) == 3:
                cur.append((parts[0], parts[1], parts[2]))
            else:
                cur.append(("bad", "", l))
    return res, rc


def compare(cmds, segs, dumps, model):
    """first disagreement between implementation (harness) and one model run, or None.
    Compares the response kind and the canonicalised state dump after every command."""
    n = len(cmds)
    if len(dumps) < n:
        return dict(at=len(dumps), what="implementation stopped after %d of %d commands" % (len(dumps), n))
    if len(model) < n:
        ub = any(m[0] == "UB" for m in model)
        return dict(at=len(model), what="model %s after %d of %d commands" % ("reaches undefined behaviour" if ub else "stopped", len(model), n))
    ci, _ = canon(dumps[:n])
    cm, _ = canon([m[2] for m in model[:n]])
    for i in range(n):
        ki = resp_kind(segs[i])
        if ki != model[i][0]:
            return dict(at=i, what="response", cmd=cmds[i].text, impl=ki, model=model[i][0], impl_out=segs[i][:300])
        if ci[i] != cm[i]:
            return dict(at=i, what="state", cmd=cmds[i].text, impl=ci[i], model=cm[i])
    return None


def parse_dump(d):
    """fields of a (canonicalised or raw) dump line"""
    r = {}
    for mo in re.finditer(r"(\w+)=(\[[^\]]*\]|\S*)", d):
        k, v = mo.group(1), mo.group(2)
        r[k] = v
    names = {}
    order = []
    if r.get("names", "[]") != "[]":
        for p in r["names"][1:-1].split():
            a, b = p.split(":")
            names[a] = b
            order.append(a)
    r["names_map"], r["names_order"] = names, order
    r["cur_list"] = r.get("cur", "[]")[1:-1].split()
    r["asr_list"] = r.get("asr", "[]")[1:-1].split()
    return r


def run_binary(cmds, timeout=60):
    import time
    for attempt in range(30):
        try:
            rc, out, err = vlib.run_opensmt(sg.render(cmds, echo=True), timeout=timeout)
            break
        except OSError:          # the shared binary is being relinked by a concurrent incremental build
            if attempt == 29:
                raise
            time.sleep(2)
    segs, tail = sg.split_echo(out, len(cmds))
    return rc, segs, tail, err
