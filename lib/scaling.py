"""Structured instance families with a size parameter, each decided by the unchanged solver in well under a second at the sizes used:
deep congruence chains, mutually recursive definitions through UF, equality diamonds, difference-logic cycles, definition chains,
nested ite, let DAGs, pigeonhole. Used by C30 (termination) as a wall-clock backstop aimed at loops whose iteration count depends on
the structure of the input (substitution closure, explanation, consequence search, ite/let expansion)."""
import random
def cong_chain(rng, n):
    ar = rng.choice([2, 2, 3])
    L = ["(set-logic QF_UF)", "(declare-sort U 0)", "(declare-fun f (%s) U)" % " ".join(["U"] * ar), "(declare-fun a0 () U)", "(declare-fun b0 () U)", "(declare-fun p () Bool)"]
    for i in range(1, n + 1):
        L.append("(define-fun a%d () U (f %s))" % (i, " ".join(["a%d" % (i - 1)] * ar)))
        L.append("(define-fun b%d () U (f %s))" % (i, " ".join(["b%d" % (i - 1)] * ar)))
    L += ["(assert (or (= a0 b0) p))", "(assert (or (= a0 b0) (not p)))", "(assert (not (= a%d b%d)))" % (n, n), "(check-sat)"]
    return "\n".join(L) + "\n"
def mutual_defs(rng, k):
    lg = rng.choice(["QF_UFLRA", "QF_UFLIA"]); s = "Real" if lg == "QF_UFLRA" else "Int"
    L = ["(set-logic %s)" % lg] + ["(declare-fun h%d (%s) %s)" % (i, s, s) for i in range(k)] + ["(declare-fun x%d () %s)" % (i, s) for i in range(k)] + ["(declare-fun w () %s)" % s]
    for i in range(k):
        L.append("(assert (= x%d (+ (h%d x%d) %d)))" % (i, i, (i + 1) % k, rng.randint(1, 3)))
    L.append("(assert (= w (+ %s)))" % " ".join("(h%d x%d)" % (i, (i + 1) % k) for i in range(k)))
    L.append("(check-sat)")
    return "\n".join(L) + "\n"
def eq_diamonds(rng, n):
    L = ["(set-logic QF_UF)", "(declare-sort U 0)"] + ["(declare-fun %s%d () U)" % (v, i) for i in range(n + 1) for v in "xyz"]
    for i in range(n):
        L.append("(assert (or (and (= x%d y%d) (= y%d x%d)) (and (= x%d z%d) (= z%d x%d))))" % (i, i, i, i + 1, i, i, i, i + 1))
    L += ["(assert (not (= x0 x%d)))" % n, "(check-sat)"]
    return "\n".join(L) + "\n"
def dl_cycle(rng, n):
    lg = rng.choice(["QF_IDL", "QF_RDL"]); s = "Int" if lg == "QF_IDL" else "Real"
    L = ["(set-logic %s)" % lg] + ["(declare-fun x%d () %s)" % (i, s) for i in range(n)]
    es = ["(assert (< x%d x%d))" % (i, (i + 1) % n) for i in range(n)]
    rng.shuffle(es)
    return "\n".join(L + es + ["(check-sat)"]) + "\n"
def def_chain(rng, n):
    lg = rng.choice(["QF_LRA", "QF_LIA"]); s = "Real" if lg == "QF_LRA" else "Int"
    L = ["(set-logic %s)" % lg] + ["(declare-fun x%d () %s)" % (i, s) for i in range(n + 1)]
    es = ["(assert (= x%d (+ x%d %d)))" % (i + 1, i, rng.randint(1, 2)) for i in range(n)]
    rng.shuffle(es)
    return "\n".join(L + es + ["(assert (< x%d x0))" % n, "(check-sat)"]) + "\n"
def ite_chain(rng, n):
    L = ["(set-logic QF_LRA)"] + ["(declare-fun c%d () Bool)" % i for i in range(n)] + ["(declare-fun x () Real)", "(declare-fun y () Real)"]
    t = "x"
    for i in range(n):
        t = "(ite c%d (+ %s 1) %s)" % (i, t, "y" if i % 2 else "x")
    L += ["(assert (< %s (- x 1)))" % t, "(assert (< y x))" , "(check-sat)"]
    return "\n".join(L) + "\n"
def let_dag(rng, n):
    L = ["(set-logic QF_LRA)", "(declare-fun x () Real)"]
    t = "(< t%d 0)" % n
    for i in range(n, 0, -1):
        t = "(let ((t%d (+ %s %s))) %s)" % (i, "t%d" % (i - 1) if i > 1 else "x", "t%d" % (i - 1) if i > 1 else "x", t)
    L += ["(assert %s)" % t, "(assert (> x 0))", "(check-sat)"]
    return "\n".join(L) + "\n"
def php(rng, holes):
    pg = holes + 1
    L = ["(set-logic QF_UF)"] + ["(declare-fun p_%d_%d () Bool)" % (i, j) for i in range(pg) for j in range(holes)]
    for i in range(pg):
        L.append("(assert (or %s))" % " ".join("p_%d_%d" % (i, j) for j in range(holes)))
    for j in range(holes):
        for i in range(pg):
            for k in range(i + 1, pg):
                L.append("(assert (or (not p_%d_%d) (not p_%d_%d)))" % (i, j, k, j))
    L.append("(check-sat)")
    return "\n".join(L) + "\n"
FAM = {"cong-chain": (cong_chain, [30, 60]), "mutual-defs": (mutual_defs, [2, 3]), "eq-diamonds": (eq_diamonds, [15, 40]), "dl-cycle": (dl_cycle, [50, 200]),
       "def-chain": (def_chain, [40, 120]), "ite-chain": (ite_chain, [12, 24]), "let-dag": (let_dag, [20, 40]), "php": (php, [4, 5])}
