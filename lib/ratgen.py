"""Boundary-aimed rational operand generators for C15 (FastRational).

Everything random derives from the rng passed in.  Operands are (num, den) pairs of python ints
with den > 0, not necessarily reduced (the string constructor canonicalises)."""
from math import gcd

P31, P32, P53, P63, P64 = 2**31, 2**32, 2**53, 2**63, 2**64

# numerators / denominators at and around the representation bounds
NUM_BOUNDS = [0, 1, 2, 3, 5, 6, 7, 10, 2**15, 2**16, 46341, 65535, P31 - 3, P31 - 2, P31 - 1, P31, P31 + 1, P32 - 3, P32 - 2, P32 - 1, P32,
              P32 + 1, P53 - 1, P53, P53 + 1, 2**62, P63 - 1, P63, P63 + 1, P64 - 1, P64, P64 + 1, 10**20, 10**40 + 7]
DEN_BOUNDS = [1, 2, 3, 4, 5, 6, 7, 10, 2**15, 2**16, 46341, 65535, 65537, P31 - 2, P31 - 1, P31, P31 + 1, P32 - 5, P32 - 4, P32 - 3, P32 - 2,
              P32 - 1, P32, P32 + 1, P53, P63, P64 + 1]
SMALL_PRIMES = [2, 3, 5, 7, 11, 13, 17, 19, 23, 29, 31, 37, 41, 43, 47, 65521, 65537, 46337, 46349]


def quick_nums():
    pos = [0, 1, 2, 3, P31 - 2, P31 - 1, P31, P31 + 1, P32 - 1, P32, P53, P63 - 1, P63, P64]
    return sorted(set(pos + [-x for x in pos]))


def quick_dens():
    return [1, 2, 3, P31 - 1, P31, P32 - 2, P32 - 1, P32, P63]


def thorough_nums():
    return sorted(set(NUM_BOUNDS + [-x for x in NUM_BOUNDS]))


def thorough_dens():
    return list(DEN_BOUNDS)


def boundary_rationals(nums, dens):
    """all n/d (given literally, unreduced) with distinct values"""
    seen, out = set(), []
    for n in nums:
        for d in dens:
            g = gcd(n, d)
            key = (n // g, d // g)
            if key not in seen:
                seen.add(key)
                out.append((n, d))
    return out


def near(rng, b, w=3):
    return b + rng.randint(-w, w)


def word_num(rng):
    """a numerator in (or just outside) the int32 range"""
    k = rng.random()
    if k < 0.35:
        v = near(rng, rng.choice([P31 - 1, P31, P31 - 2, 2**30, 46341, 65536]))
    elif k < 0.6:
        v = rng.randint(0, 60)
    elif k < 0.8:
        v = rng.randint(0, P31)
    else:  # smooth numbers: share factors with denominators
        v = 1
        for _ in range(rng.randint(1, 6)):
            v *= rng.choice(SMALL_PRIMES)
        v = v % (P31 + 2)
    return v if rng.random() < 0.5 else -v


def uword_den(rng):
    """a denominator in (or just outside) the uint32 range"""
    k = rng.random()
    if k < 0.35:
        v = near(rng, rng.choice([P32 - 1, P32 - 2, P32, P31, P31 - 1, 65536, 65537, 46341]), 4)
    elif k < 0.55:
        v = rng.randint(1, 60)
    elif k < 0.75:
        v = rng.randint(1, P32)
    else:
        v = 1
        for _ in range(rng.randint(1, 6)):
            v *= rng.choice(SMALL_PRIMES)
        v = v % (P32 + 2)
    return max(1, abs(v))


def big_int(rng):
    k = rng.random()
    if k < 0.5:
        v = near(rng, rng.choice(NUM_BOUNDS))
    elif k < 0.8:
        a, b = rng.choice(NUM_BOUNDS), rng.choice(NUM_BOUNDS)
        v = rng.choice([a * b, a + b, a - b, a * b + 1, a * b - 1])
    else:
        v = rng.randint(0, 10 ** rng.randint(1, 45))
    return v if rng.random() < 0.5 else -v


def rational(rng):
    k = rng.random()
    if k < 0.5:
        return (word_num(rng), uword_den(rng))
    if k < 0.62:
        return (word_num(rng), 1)
    if k < 0.72:
        return (big_int(rng), 1)
    if k < 0.82:
        return (big_int(rng), max(1, abs(big_int(rng))))
    if k < 0.92:
        return (big_int(rng), uword_den(rng))
    return (word_num(rng), max(1, abs(big_int(rng))))


def related(rng, a):
    """a second operand related to a = (n, d): aims at the special-cased branches (equal, negated,
    same denominator, denominators with a common factor, sums/products crossing a bound)"""
    n, d = a
    k = rng.randint(0, 11)
    if k == 0:
        return (n, d)
    if k == 1:
        return (-n, d)
    if k == 2:
        return (word_num(rng), d)
    if k == 3:
        c = rng.choice(SMALL_PRIMES)
        return (word_num(rng), max(1, (d // c if d % c == 0 else d * c) % (P32 + 2)))
    if k == 4:  # reciprocal-like: products cancel
        return (d if n >= 0 else -d, max(1, abs(n)))
    if k == 5:  # sum of numerators just across int32 (same denominator)
        t = rng.choice([P31 - 1, P31, -P31, -P31 - 1, P32 - 1, P32])
        return (t - n, d)
    if k == 6:  # integer making n + k*d cross a bound
        t = rng.choice([P31 - 1, P31, -P31, -P31 - 1, P63 - 1, P63, -P63, -P63 - 1])
        return ((t - n) // d + rng.randint(-1, 1), 1)
    if k == 7:  # product of numerators across a bound
        t = rng.choice([P31 - 1, P31, P32, P63, P64])
        m = t // max(1, abs(n)) + rng.randint(-1, 1)
        return (m if rng.random() < 0.5 else -m, uword_den(rng))
    if k == 8:  # product of denominators across a bound
        t = rng.choice([P32 - 1, P32, P63, P64])
        return (word_num(rng), max(1, t // d + rng.randint(-1, 1)))
    if k == 9:
        g = rng.choice(SMALL_PRIMES)
        return (word_num(rng) * g, d * g)  # unreduced
    return rational(rng)


def integer(rng):
    k = rng.random()
    if k < 0.6:
        return (word_num(rng), 1)
    return (big_int(rng), 1)


def related_integer(rng, a):
    n = a[0]
    k = rng.randint(0, 7)
    if k == 0:
        return (n, 1)
    if k == 1:
        return (-n, 1)
    if k == 2 and n != 0:  # a divisor
        for p in SMALL_PRIMES:
            if n % p == 0:
                return (n // p if rng.random() < 0.5 else -p, 1)
        return (1 if rng.random() < 0.5 else -1, 1)
    if k == 3:  # a multiple
        return (n * rng.choice([2, 3, -2, -3, 65537, -65537, P31]), 1)
    if k == 4:
        return (rng.choice([1, -1, 2, -2, P31 - 1, -P31, P31, 3, -3]), 1)
    return integer(rng)
