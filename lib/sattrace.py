"""SAT-level trace handling for C12 / C10 (see design/TRACE_FORMAT.md, design/C12.md, design/C10.md).

 * run_traced:       run the hooked solver on a script, return stdout and the parsed clause events
 * driver_lines:     turn the events of one run into commands of build/ocaml/sat/vmodel (ocaml/sat_driver.ml)
 * sexp reader:      tokenizer / parser for the solver's printed output ((get-proof))
 * parse_proof:      printed proof -> steps over numbered atoms (the data of coq/Sat/ProofCheck.v)
"""
import os
import random
import re
import subprocess

import vlib

# ---------------------------------------------------------------------------------------------
# running with a trace
# ---------------------------------------------------------------------------------------------

EV = re.compile(r"^\((o|d|l|f) (\S+) \(([-0-9 ]*)\)\)$")
EVT = re.compile(r"^\(t (\S+) (\w+) \(([-0-9 ]*)\) ")


def run_solver(script, **kw):
    """vlib.run_opensmt, retried while the binary is being relinked by a concurrent build of the implementation
    (PermissionError / ETXTBSY / missing file for a moment)."""
    import time
    last = None
    for attempt in range(40):
        try:
            return vlib.run_opensmt(script, **kw)
        except OSError as e:
            last = e
            time.sleep(3)
    raise last


def run_traced(script, timeout=20, binary=None, args=()):
    """Returns (rc, stdout, stderr, events); events = list of (kind, inst, lits[, extra]) in trace order.
    kind in o d l f t; for t: extra = (tkind, [term strings])."""
    tmpd = os.path.join(vlib.BUILD, "tmp")
    os.makedirs(tmpd, exist_ok=True)
    tr = os.path.join(tmpd, "tr_%d_%d.txt" % (os.getpid(), random.getrandbits(40)))
    try:
        rc, out, err = run_solver(script, args=args, timeout=timeout, env_extra={"OPENSMT_VERIF_TRACE": tr}, binary=binary)
        events = []
        if os.path.exists(tr):
            with open(tr, errors="replace") as f:
                for line in f:
                    line = line.rstrip("\n")
                    m = EV.match(line)
                    if m:
                        events.append((m.group(1), m.group(2), [int(x) for x in m.group(3).split()]))
                        continue
                    m = EVT.match(line)
                    if m:
                        terms = None
                        try:
                            sx = parse_sexps(line)[0]
                            terms = [unparse(t) for t in sx[4]]
                        except Exception:
                            terms = None
                        events.append(("t", m.group(1), [int(x) for x in m.group(3).split()], (m.group(2), terms)))
        return rc, out, err, events
    finally:
        if os.path.exists(tr):
            os.remove(tr)


def canon_instances(events):
    ids = {}
    for e in events:
        if e[1] not in ids:
            ids[e[1]] = "i%d" % len(ids)
    return ids


def driver_lines(events):
    """Commands for the extracted checker: originals and theory clauses are added, learnt / derived / final
    clauses are checked (and then added by the driver). Returns (lines, index of the event for each line)."""
    ids = canon_instances(events)
    lines, idx = ["R"], [None]
    for k, e in enumerate(events):
        kind, inst, lits = e[0], ids[e[1]], e[2]
        cmd = "A" if kind in ("o", "t") else "C"
        lines.append("%s %s %s" % (cmd, inst, " ".join(map(str, lits))))
        idx.append(k)
    return lines, idx


def run_driver(exe, lines, timeout=600):
    p = subprocess.run([exe], input="\n".join(lines) + "\n", stdout=subprocess.PIPE, stderr=subprocess.PIPE, text=True, timeout=timeout)
    out = p.stdout.split("\n")
    if out and out[-1] == "":
        out.pop()
    return p.returncode, out, p.stderr


def py_eval_clause(assign, clause):
    return any(assign.get(abs(l)) == (l > 0) for l in clause)


# ---------------------------------------------------------------------------------------------
# s-expressions
# ---------------------------------------------------------------------------------------------

TOK = re.compile(r"""(\s*)(?:(;[^\n]*)|(\()|(\))|("(?:[^"]|"")*")|(\|[^|]*\|)|([^\s()|";]+))""")


class SL(list):
    """a parsed list that remembers whether its closing parenthesis was preceded by white space
    (the only thing that tells the printed clause '(or a b )' from the printed unit literal '(or a b)')"""
    space_close = False


def tokenize(text, keep_comments=False):
    pos, n = 0, len(text)
    while pos < n:
        m = TOK.match(text, pos)
        if not m:
            if text[pos:].strip() == "":
                return
            raise ValueError("cannot tokenize at %r" % text[pos:pos + 30])
        pos = m.end()
        if m.group(2) is not None:
            if keep_comments:
                yield ("c", m.group(2))
        elif m.group(3):
            yield ("(", "(")
        elif m.group(4):
            yield (")", ") " if m.group(1) else ")")
        else:
            yield ("a", m.group(5) or m.group(6) or m.group(7))


def parse_sexps(text):
    """List of top-level s-expressions; atoms are str, lists are python lists."""
    stack, top = [], []
    cur = top
    for k, v in tokenize(text):
        if k == "(":
            new = SL()
            cur.append(new)
            stack.append(cur)
            cur = new
        elif k == ")":
            if not stack:
                raise ValueError("unbalanced )")
            cur.space_close = v == ") "
            cur = stack.pop()
        else:
            cur.append(v)
    if stack:
        raise ValueError("unbalanced (")
    return top


def unparse(sx):
    if isinstance(sx, str):
        return sx
    return "(" + " ".join(unparse(x) for x in sx) + ")"


# ---------------------------------------------------------------------------------------------
# printed proofs
# ---------------------------------------------------------------------------------------------

class ProofSyntax(Exception):
    pass


def split_outputs(stdout):
    """Split the solver's stdout into top-level responses (atoms like sat/unsat or balanced s-expressions,
    comment lines inside are kept with the expression text). Returns list of strings."""
    res, depth, cur = [], 0, []
    i, n = 0, len(stdout)
    tok_start = None
    while i < n:
        ch = stdout[i]
        if ch == ";" and True:
            j = stdout.find("\n", i)
            j = n if j < 0 else j
            if depth > 0:
                cur.append(stdout[i:j])
            i = j
            continue
        if ch == '"':
            j = i + 1
            while j < n:
                if stdout[j] == '"':
                    if j + 1 < n and stdout[j + 1] == '"':
                        j += 2
                        continue
                    break
                j += 1
            cur.append(stdout[i:j + 1])
            i = j + 1
            if depth == 0:
                res.append("".join(cur)); cur = []
            continue
        if ch == "|":
            j = stdout.find("|", i + 1)
            j = n - 1 if j < 0 else j
            cur.append(stdout[i:j + 1])
            i = j + 1
            if depth == 0 and (i >= n or stdout[i].isspace()):
                res.append("".join(cur)); cur = []
            continue
        if ch == "(":
            depth += 1
            cur.append(ch)
        elif ch == ")":
            depth -= 1
            cur.append(ch)
            if depth == 0:
                res.append("".join(cur)); cur = []
        elif ch.isspace():
            if depth == 0:
                if cur:
                    res.append("".join(cur)); cur = []
            else:
                cur.append(ch)
        else:
            cur.append(ch)
        i += 1
    if cur and "".join(cur).strip():
        res.append("".join(cur))
    return res


def lit_of_term(t):
    """printed literal -> (atom text, positive?)"""
    if isinstance(t, list) and len(t) == 2 and t[0] == "not":
        return unparse(t[1]), False
    return unparse(t), True


def clause_of_printed(sx):
    """The printed form of a clause (CoreSMTSolver::printSMTClause): '(or l1 l2 ... )' for size > 1 (every literal is
    followed by a blank, so there is a blank before the closing parenthesis), a bare literal for a unit, '-' for the
    empty clause (only in comment lines). A unit clause whose literal is itself an or-term (a Tseitin variable) prints
    as '(or a b)' without that blank: this is the only difference between the two, and it is used here."""
    if isinstance(sx, list) and sx and sx[0] == "or" and getattr(sx, "space_close", True):
        return [lit_of_term(x) for x in sx[1:]]
    return [lit_of_term(sx)]


def parse_proof(text):
    """text: one '(proof ...)' response including its comment lines.
    Returns dict(steps=[...], final=int or None, final_text=str, core=[int], atoms={text: var})
      step = ('L', name, [(atom, pos)])  |  ('D', name, stated or None, first, [(premise, pivot atom)])
    Names are the integers n of cls_n. Raises ProofSyntax when the text is not of the printed shape."""
    toks = list(tokenize(text, keep_comments=True))
    pos = 0

    def peek():
        return toks[pos] if pos < len(toks) else (None, None)

    def take(kind=None, val=None):
        nonlocal pos
        if pos >= len(toks):
            raise ProofSyntax("unexpected end")
        k, v = toks[pos]
        if (kind and k != kind) or (val is not None and v.strip() != val):
            raise ProofSyntax("expected %s %s, got %s %r" % (kind, val, k, v))
        pos += 1
        return v

    def sexp():
        k, v = peek()
        if k == "c":
            take()
            return sexp()
        if k == "a":
            return take()
        if k == "(":
            take()
            items = SL()
            while peek()[0] != ")":
                if peek()[0] is None:
                    raise ProofSyntax("unbalanced")
                if peek()[0] == "c":
                    take()
                    continue
                items.append(sexp())
            items.space_close = take(")") == ") "
            return items
        raise ProofSyntax("unexpected %r" % (v,))

    def name_of(a):
        if not isinstance(a, str) or not re.fullmatch(r"cls_[0-9]+", a):
            raise ProofSyntax("not a clause name: %r" % (a,))
        return int(a[4:])

    take("(")
    take("a", "proof")
    steps = []
    pending_comment = None
    nlets = 0
    final_text = None
    while True:
        k, v = peek()
        if k == "c":
            take()
            pending_comment = v[1:].strip()
            continue
        if k == "(":
            take("(")
            take("a", "let")
            take("(")
            nm = name_of(take("a"))
            # body up to the closing paren of the binding
            items = []
            while peek()[0] != ")":
                if peek()[0] is None:
                    raise ProofSyntax("unbalanced binding")
                items.append(sexp())
            take(")")
            nlets += 1
            if len(items) == 1 and isinstance(items[0], list) and items[0] and items[0][0] == "res":
                # derivation chain
                chain = []
                cur = items[0]
                while isinstance(cur, list) and cur and cur[0] == "res":
                    if len(cur) != 4:
                        raise ProofSyntax("res with %d arguments" % (len(cur) - 1))
                    chain.append((cur[2], cur[3]))
                    cur = cur[1]
                first = name_of(cur)
                chain.reverse()
                stated = None
                if pending_comment is not None:
                    if pending_comment == "-":
                        stated = []
                    else:
                        sx = parse_sexps(pending_comment)
                        if len(sx) != 1:
                            raise ProofSyntax("stated clause %r" % pending_comment)
                        stated = clause_of_printed(sx[0])
                if stated is None:
                    raise ProofSyntax("derived clause cls_%d without the comment line stating it" % nm)
                steps.append(("D", nm, stated, first, [(name_of(c), unparse(p)) for c, p in chain]))
            else:
                # leaf: printed clause; a unit is printed as a bare literal, an empty body = clause over true/false only
                # literals over the constants true/false are not printed (printSMTClause skips var <= 1): a clause printed
                # in the or-form with fewer than two literals, or with an empty body, has lost such literals
                if len(items) == 0:
                    lits, elided = [], True
                elif len(items) == 1:
                    lits = clause_of_printed(items[0])
                    it = items[0]
                    elided = isinstance(it, list) and len(it) < 3 and bool(it) and it[0] == "or" and getattr(it, "space_close", False)
                else:
                    raise ProofSyntax("leaf body with %d terms" % len(items))
                steps.append(("L", nm, lits, elided))
            pending_comment = None
            continue
        if k == "a":
            final_text = take("a")
            break
        raise ProofSyntax("unexpected token %r" % (v,))
    for _ in range(nlets):
        take(")")
    core = []
    k, v = peek()
    if k == "a" and v == ":core":
        take()
        take("(")
        while peek()[0] == "a":
            core.append(name_of(take("a")))
        take(")")
    take(")")
    if pos != len(toks):
        raise ProofSyntax("trailing tokens")
    final = int(final_text[4:]) if re.fullmatch(r"cls_[0-9]+", final_text or "") else None
    # number the atoms
    atoms = {}

    def var(a):
        if a not in atoms:
            atoms[a] = len(atoms) + 1
        return atoms[a]
    for s in steps:
        if s[0] == "L":
            for a, _ in s[2]:
                var(a)
        else:
            for a, _ in (s[2] or []):
                var(a)
            for _, p in s[4]:
                var(p)
    return dict(steps=steps, final=final, final_text=final_text, core=core, atoms=atoms)


CONSTS = ("true", "false")


def has_elision(pr):
    """the printed proof shows the loss of literals over true/false: an elided leaf or a pivot that is a constant"""
    for s in pr["steps"]:
        if s[0] == "L" and s[3]:
            return True
        if s[0] == "D" and any(p in CONSTS for _, p in s[4]):
            return True
    return False


def drop_constant_steps(pr):
    """Reading of a proof whose constant literals were not printed: a chain step on the pivot true/false resolves
    with the unit clause over that constant and removes a literal that is not printed anyway, so the step is left out
    (if the chain STARTS with the constant unit, the other premise becomes the start). Returns a new proof dict."""
    empty_leaf = {s[1] for s in pr["steps"] if s[0] == "L" and not s[2]}
    steps = []
    for s in pr["steps"]:
        if s[0] == "L":
            steps.append(s)
            continue
        first, chain = s[3], list(s[4])
        new = []
        for k, (cn, p) in enumerate(chain):
            if p in CONSTS:
                if not new and first in empty_leaf and k == 0:
                    first = cn
                continue
            new.append((cn, p))
        steps.append(("D", s[1], s[2], first, new))
    return dict(pr, steps=steps)


def proof_driver_line(pr, final=None, admitted=None):
    """One 'P' command of ocaml/sat_driver.ml. admitted: None = all leaves, else a collection of leaf names."""
    at = pr["atoms"]

    def lits(ls):
        return " ".join(str(at[a] if p else -at[a]) for a, p in ls)
    parts = ["P %d" % (pr["final"] if final is None else final),
             " ".join(map(str, pr["core"])),
             "*" if admitted is None else " ".join(map(str, sorted(admitted)))]
    for s in pr["steps"]:
        if s[0] == "L":
            parts.append("L %d %s" % (s[1], lits(s[2])))
        else:
            stated = s[2] if s[2] is not None else []
            parts.append("D %d %s : %d %s" % (s[1], lits(stated), s[3], " ".join("%d %d" % (c, at[p]) for c, p in s[4])))
    return " ; ".join(parts)
