"""Solver-level helpers: run a script on the hooked binary, align answers with query commands,
validate models with the verified evaluator (certified sat), ask reference solvers (untrusted)."""
import os
import re
import vlib
import smtlib
from smtlib import Script, Elab, ParseError, read_all, sx_str

_sem_exe = None


def sem_exe():
    global _sem_exe
    if _sem_exe is None:
        _sem_exe, log = vlib.build_extracted("sem")
        if not _sem_exe:
            raise RuntimeError("extraction of coq/Sem failed: " + log)
    return _sem_exe


def run_aligned(text, args=(), timeout=30, pipe=False, trace=None):
    """Run opensmt; returns (rc, list of (kind, cmd sx, frames, sig, answer sx or None), raw stdout, stderr)."""
    env = {"OPENSMT_VERIF_TRACE": trace} if trace else None
    if trace and os.path.exists(trace):
        os.remove(trace)
    rc, out, err = vlib.run_opensmt(text, args=args, timeout=timeout, pipe=pipe, env_extra=env)
    sc = Script(text)
    qs = sc.run()
    try:
        answers = read_all(out)
    except ParseError:
        answers = None
    res = []
    if answers is not None:
        producing = [q for q in qs if q[0] not in ("exit",)]
        for i, q in enumerate(producing):
            a = answers[i] if i < len(answers) else None
            res.append((q[0], q[2], q[3], q[4], a))
    return rc, res, out, err


def active_assertions(frames):
    return [t for f in frames for (t, _) in f]


def evaluate(sig, model_sx, assertion_sxs, value_sxs=()):
    """Verified evaluation of the assertions under the printed model.
    Returns dict(ok, covers, missing, illsorted, asserts (string of T/F/N/S), values [..]) or dict(error=...)."""
    el = Elab(sig)
    try:
        aw = [el.elab(a, {}, "B")[0] for a in assertion_sxs]
        vw = [el.elab(v, {})[0] for v in value_sxs]
        mw, names = smtlib.model_wire(sig, model_sx)
        sw = smtlib.sig_wire(sig)
    except (ParseError, IndexError, KeyError, TypeError, ValueError) as e:
        return dict(error="glue: %s" % e)
    req = "(check %s %s (asserts %s) (values %s))\n" % (sw, mw, " ".join(aw), " ".join(vw))
    rc, out = vlib.sh([sem_exe()], input=req, timeout=60)
    out = out.strip()
    if rc != 0 or out.startswith("error"):
        return dict(error="evaluator: %s" % out[:200])
    d = dict(kv.split("=", 1) for kv in out.split(" "))
    return dict(ok=d["ok"] == "1", covers=d["covers"] == "1", missing=[x for x in d["missing"].split(",") if x],
                illsorted=[x for x in d["illsorted"].split(",") if x], asserts=d["asserts"],
                values=d["values"].split(";") if d["values"] else [], names=names, idnames={v: k for k, v in sig.ids.items()})


def value_wire_of_answer(sig, v_sx, sort):
    """A printed value (get-value answer) as the evaluator's canonical value string."""
    from fractions import Fraction
    if sort == "B":
        return {"true": "B1", "false": "B0"}.get(v_sx) if isinstance(v_sx, str) else None
    if sort == "I":
        f = smtlib.fraction_of_value_sx(v_sx)
        return "Z%d" % f.numerator if f.denominator == 1 else "illsorted"
    if sort == "R":
        f = smtlib.fraction_of_value_sx(v_sx)
        return "Q%d/%d" % (f.numerator, f.denominator)
    if isinstance(v_sx, list) and v_sx[0] == "as":
        return "U%d.%d" % (sort[1], sig.abs_id(sort[1], v_sx[1]))
    return None


def canon_value(s):
    """Canonical form of evaluator value strings (Q reduced)."""
    from fractions import Fraction
    if s.startswith("Q"):
        n, d = s[1:].split("/")
        f = Fraction(int(n), int(d))
        return "Q%d/%d" % (f.numerator, f.denominator)
    return s


def flat_script(sig_text_decls, logic, assertions, extra_opts=()):
    lines = ["(set-option %s)" % o for o in extra_opts] + ["(set-logic %s)" % logic] + sig_text_decls
    lines += ["(assert %s)" % sx_str(a) for a in assertions] + ["(check-sat)"]
    return "\n".join(lines) + "\n"


def decl_lines(text):
    """Declarations of a generated script (generated scripts declare everything up front)."""
    return [sx_str(c) for c in read_all(text) if isinstance(c, list) and c and c[0] in ("declare-sort", "declare-fun", "declare-const", "define-fun")]


def strip_named(t):
    if isinstance(t, list):
        if t and t[0] == "!":
            return strip_named(t[1])
        return [strip_named(x) for x in t]
    return t


def ref_answer(solver, logic, decls, assertions, timeout=10, want_model=False):
    """Untrusted oracle answer for a flat assertion set: 'sat'|'unsat'|'unknown' (and model sx for z3)."""
    lg = logic if solver == "cvc5" or logic not in ("QF_BOOL",) else "QF_UF"
    lines = []
    if want_model:
        lines.append("(set-option :produce-models true)")
    lines.append("(set-logic %s)" % ("ALL" if solver == "cvc5" and "DL" in lg else lg))
    lines += decls
    lines += ["(assert %s)" % sx_str(strip_named(a)) for a in assertions]
    lines.append("(check-sat)")
    if want_model:
        lines.append("(get-model)")
    rc, out = vlib.run_ref(solver, "\n".join(lines) + "\n", timeout=timeout)
    first = out.strip().split("\n")[0].strip() if out.strip() else "unknown"
    if first not in ("sat", "unsat"):
        first = "unknown"
    model = None
    if want_model and first == "sat":
        try:
            sx = read_all(out[out.index("sat") + 3:])
            model = sx[0] if sx else None
            if model and model[0] == "model":
                model = model[1:]
        except Exception:
            model = None
    return first, model
