"""Solver-level helpers: run a script on the hooked binary, align answers with query commands,
validate models with the verified evaluator (certified sat), ask reference solvers (untrusted)."""
import os
import re
import vlib
import smtlib
from smtlib import Script, Elab, ParseError, read_all, sx_str

_sem_exe = None


def sem_exe():
    global _sem_exe
    if _sem_exe is None:
        _sem_exe, log = vlib.build_extracted("sem")
        if not _sem_exe:
            raise RuntimeError("extraction of coq/Sem failed: " + log)
    return _sem_exe


def run_aligned(text, args=(), timeout=30, pipe=False, trace=None):
    """Run opensmt; returns (rc, list of (kind, cmd sx, frames, sig, answer sx or None), raw stdout, stderr)."""
    env = {"OPENSMT_VERIF_TRACE": trace} if trace else None
    if trace and os.path.exists(trace):
        os.remove(trace)
    rc, out, err = vlib.run_opensmt(text, args=args, timeout=timeout, pipe=pipe, env_extra=env)
    sc = Script(text)
    qs = sc.run()
    try:
        answers = read_all(out)
    except ParseError:
        answers = None
    res = []
    if answers is not None:
        producing = [q for q in qs if q[0] not in ("exit",)]
        for i, q in enumerate(producing):
            a = answers[i] if i < len(answers) else None
            res.append((q[0], q[2], q[3], q[4], a))
    return rc, res, out, err


def active_assertions(frames):
    return [t for f in frames for (t, _) in f]


def evaluate(sig, model_sx, assertion_sxs, value_sxs=()):
    """Verified evaluation of the assertions under the printed model.
    Returns dict(ok, covers, missing, illsorted, asserts (string of T/F/N/S), values [..]) or dict(error=...)."""
    el = Elab(sig)
    try:
        aw = [el.elab(a, {}, "B")[0] for a in assertion_sxs]
        vw = [el.elab(v, {})[0] for v in value_sxs]
        mw, names = smtlib.model_wire(sig, model_sx)
        sw = smtlib.sig_wire(sig)
    except (ParseError, IndexError, KeyError, TypeError, ValueError) as e:
        return dict(error="glue: %s" % e)
    req = "(check %s %s (asserts %s) (values %s))\n" % (sw, mw, " ".join(aw), " ".join(vw))
    rc, out = vlib.sh([sem_exe()], input=req, timeout=60)
    out = out.strip()
    if rc != 0 or out.startswith("error"):
        return dict(error="evaluator: %s" % out[:200])
    d = dict(kv.split("=", 1) for kv in out.split(" "))
    return dict(ok=d["ok"] == "1", covers=d["covers"] == "1", missing=[x for x in d["missing"].split(",") if x],
                illsorted=[x for x in d["illsorted"].split(",") if x], asserts=d["asserts"],
                values=d["values"].split(";") if d["values"] else [], names=names, idnames={v: k for k, v in sig.ids.items()})


def value_wire_of_answer(sig, v_sx, sort):
    """A printed value (get-value answer) as the evaluator's canonical value string."""
    from fractions import Fraction
    if sort == "B":
        return {"true": "B1", "false": "B0"}.get(v_sx) if isinstance(v_sx, str) else None
    if sort == "I":
        f = smtlib.fraction_of_value_sx(v_sx)
        return "Z%d" % f.numerator if f.denominator == 1 else "illsorted"
    if sort == "R":
        f = smtlib.fraction_of_value_sx(v_sx)
        return "Q%d/%d" % (f.numerator, f.denominator)
    if isinstance(v_sx, list) and v_sx[0] == "as":
        return "U%d.%d" % (sort[1], sig.abs_id(sort[1], v_sx[1]))
    return None


def canon_value(s):
    """Canonical form of evaluator value strings (Q reduced)."""
    from fractions import Fraction
    if s.startswith("Q"):
        n, d = s[1:].split("/")
        f = Fraction(int(n), int(d))
        return "Q%d/%d" % (f.numerator, f.denominator)
    return s


def flat_script(sig_text_decls, logic, assertions, extra_opts=()):
    lines = ["(set-option %s)" % o for o in extra_opts] + ["(set-logic %s)" % logic] + sig_text_decls
    lines += ["(assert %s)" % sx_str(a) for a in assertions] + ["(check-sat)"]
    return "\n".join(lines) + "\n"


def decl_lines(text):
    """Declarations of a generated script (generated scripts declare everything up front)."""
    return [sx_str(c) for c in read_all(text) if isinstance(c, list) and c and c[0] in ("declare-sort", "declare-fun", "declare-const", "define-fun")]


def strip_named(t):
    if isinstance(t, list):
        if t and t[0] == "!":
            return strip_named(t[1])
        return [strip_named(x) for x in t]
    return t


def ref_answer(solver, logic, decls, assertions, timeout=10, want_model=False):
    """Untrusted oracle answer for a flat assertion set: 'sat'|'unsat'|'unknown' (and model sx for z3)."""
    lg = logic if solver == "cvc5" or logic not in ("QF_BOOL",) else "QF_UF"
    lines = []
    if want_model:
        lines.append("(set-option :produce-models true)")
    lines.append("(set-logic %s)" % ("ALL" if solver == "cvc5" and "DL" in lg else lg))
    lines += decls
    lines += ["(assert %s)" % sx_str(strip_named(a)) for a in assertions]
    lines.append("(check-sat)")
    if want_model:
        lines.append("(get-model)")
    script = "\n".join(lines) + "\n"
    # opensmt's auxiliary symbols start with '.', which cvc5 reserves: rename them consistently for the oracles
    script = re.sub(r"(?<![\w|.!@])\.([A-Za-z_][\w.!]*)", r"vaux_\1", script)
    rc, out = vlib.run_ref(solver, script, timeout=timeout)
    first = out.strip().split("\n")[0].strip() if out.strip() else "unknown"
    if first not in ("sat", "unsat"):
        first = "unknown"
    model = None
    if want_model and first == "sat":
        try:
            out = re.sub(r"(?<![\w|.!@])vaux_([A-Za-z_][\w.!]*)", r".\1", out)
            sx = read_all(out[out.index("sat") + 3:])
            model = sx[0] if sx else None
            if model and model[0] == "model":
                model = model[1:]
        except Exception:
            model = None
    return first, model


# ---------------------------------------------------------------------------------------------
# judging check-sat answers
# ---------------------------------------------------------------------------------------------

def z3_model_to_defs(model_sx):
    """z3 prints (declare-fun U!val!0 () U) / (forall ...) noise for uninterpreted sorts: keep define-funs."""
    return [d for d in (model_sx or []) if isinstance(d, list) and d and d[0] == "define-fun"]


class _Z3Sig(smtlib.Sig):
    pass


def certify_sat_with_oracle_model(sig, logic, decls, assertions):
    """Ask z3 for a model of the assertions and validate it with the verified evaluator.
    Returns ('certified', model) | ('oracle-sat-unconfirmed', why) | ('oracle-unsat', None) | ('oracle-unknown', None)."""
    ans, model = ref_answer("z3", logic, decls, assertions, want_model=True)
    if ans == "unsat":
        return "oracle-unsat", None
    if ans != "sat":
        return "oracle-unknown", None
    defs = z3_model_to_defs(model)
    # z3's abstract values  U!val!k  -> (as @k U)
    def conv(x, sortname=None):
        if isinstance(x, list):
            return [conv(y) for y in x]
        m = re.match(r"^(\w+)!val!(\d+)$", x)
        if m:
            return ["as", "@z%s" % m.group(2), m.group(1)]
        return x
    defs = [conv(d) for d in defs]
    ev = evaluate(sig, defs, [strip_named(a) for a in assertions])
    if "error" in ev:
        return "oracle-sat-unconfirmed", ev["error"]
    if ev["ok"]:
        return "certified", defs
    return "oracle-sat-unconfirmed", "z3 model not accepted: asserts=%s missing=%s" % (ev["asserts"], ev["missing"])


def judge_unsat(sig, logic, decls, assertions):
    """An `unsat` answer for these assertions: look for a counterexample.
    Returns (verdict, detail): 'agree' (both oracles unsat) | 'refuted-certified' (model validated by the verified
    evaluator) | 'refuted-oracles' (z3 and cvc5 both say sat, no validated model) | 'undecided'."""
    v, m = certify_sat_with_oracle_model(sig, logic, decls, assertions)
    if v == "certified":
        return "refuted-certified", sx_str(m)
    c, _ = ref_answer("cvc5", logic, decls, assertions)
    if v == "oracle-unsat" and c in ("unsat", "unknown"):
        return "agree", None
    if v == "oracle-unsat" and c == "sat":
        return "undecided", "z3 unsat, cvc5 sat"
    if v == "oracle-sat-unconfirmed" and c == "sat":
        return "refuted-oracles", m
    if v == "oracle-unknown" and c == "unsat":
        return "agree", None
    return "undecided", "z3:%s cvc5:%s" % (v, c)


def judge_sat(sig, logic, decls, assertions, own_model_sx):
    """A `sat` answer: 'certified' when the solver's own model passes the verified evaluator;
    else ask the oracles: 'refuted-oracles' (both unsat), 'model-invalid-but-sat' , 'undecided'."""
    if own_model_sx is not None and isinstance(own_model_sx, list) and not (own_model_sx and own_model_sx[0] == "error"):
        ev = evaluate(sig, own_model_sx, [strip_named(a) for a in assertions])
        if "error" not in ev and ev["ok"]:
            return "certified", None
        why = ev.get("error") or "asserts=%s missing=%s" % (ev["asserts"], ev["missing"])
    else:
        why = "no model"
    z, _ = ref_answer("z3", logic, decls, assertions)
    c, _ = ref_answer("cvc5", logic, decls, assertions)
    if z == "unsat" and c == "unsat":
        return "refuted-oracles", why
    if z == "sat" or c == "sat":
        return "model-invalid-but-sat", why
    return "undecided", why
