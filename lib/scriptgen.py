"""Generator of small well-sorted SMT-LIB scripts for the solver-level checks (C01-C05, C13, C29, C30 ...).
Every random choice comes from the rng passed in. Scripts are small by construction (few atoms,
few variables) so that reference solvers and the verified checkers answer instantly.
"""

LOGICS_MODEL = ["QF_UF", "QF_LRA", "QF_LIA", "QF_RDL", "QF_IDL", "QF_UFLRA", "QF_UFLIA", "QF_BOOL"]
BIG = [2**31 - 1, 2**31, 2**32, 2**32 + 1, 2**53, 2**53 + 1, 2**63, 2**64 + 1, 10**20 + 3]


class Gen:
    def __init__(self, rng, logic, nvars=None, size=None, big=False, divmod=True, numprefix="v", force_bargs=False):
        self.r = rng
        self.logic = logic
        self.decls = []
        self.boolvars = ["p%d" % i for i in range(rng.randint(2, 4))]
        self.big = big
        self.divmod = divmod
        self.num = None
        self.usort = None
        self.numvars, self.uvars, self.ufuns, self.upreds, self.nfuns = [], [], [], [], []
        self.bargs = False
        L = logic
        if "LRA" in L or "RDL" in L:
            self.num = "Real"
        if "LIA" in L or "IDL" in L:
            self.num = "Int"
        if self.num:
            self.numvars = ["%s%d" % (numprefix, i) for i in range(nvars or rng.randint(2, 4))]
        self.dl = "DL" in L
        if "UF" in L and L != "QF_BOOL":
            self.usort = "U"
            self.uvars = ["a%d" % i for i in range(rng.randint(3, 5))]
            self.ufuns = [("f", 1), ("g", 2)][: rng.randint(1, 2)]
            self.upreds = [("q", 1)] if rng.random() < 0.7 else []
            if self.num:
                self.nfuns = [("h", 1)]     # h : num -> num
            # Boolean-argument uninterpreted symbols: bq : Bool -> Bool, bf : Bool -> U (Boolean terms inside UF)
            self.bargs = rng.random() < 0.3 or force_bargs
        for b in self.boolvars:
            self.decls.append("(declare-fun %s () Bool)" % b)
        if self.usort:
            self.decls.append("(declare-sort U 0)")
            for v in self.uvars:
                self.decls.append("(declare-fun %s () U)" % v)
            for f, n in self.ufuns:
                self.decls.append("(declare-fun %s (%s) U)" % (f, " ".join(["U"] * n)))
            for f, n in self.upreds:
                self.decls.append("(declare-fun %s (%s) Bool)" % (f, " ".join(["U"] * n)))
            if self.bargs:
                self.decls.append("(declare-fun bq (Bool) Bool)")
                self.decls.append("(declare-fun bf (Bool) U)")
                # Booleans that occur ONLY as arguments of bq/bf (in no clause of their own)
                for b in ("pb0", "pb1", "pb2"):
                    self.decls.append("(declare-fun %s () Bool)" % b)
        for v in self.numvars:
            self.decls.append("(declare-fun %s () %s)" % (v, self.num))
        for f, n in self.nfuns:
            self.decls.append("(declare-fun %s (%s) %s)" % (f, " ".join([self.num] * n), self.num))

    # ---- numerals
    def const(self, small=True):
        r = self.r
        if self.big and r.random() < 0.35:
            v = r.choice(BIG) + r.randint(-1, 1)
            if r.random() < 0.5:
                v = -v
        else:
            v = r.randint(-6, 6) if small else r.randint(-40, 40)
        if self.num == "Real" and not self.dl and r.random() < 0.25:
            d = r.randint(2, 7)
            return self.lit(v, d)
        return self.lit(v, 1)

    def lit(self, n, d=1):
        if self.num == "Real":
            s = "%d.0" % abs(n) if self.r.random() < 0.3 and d == 1 else "%d" % abs(n)
            if d != 1:
                s = "(/ %s %d)" % (s, d)
        else:
            s = "%d" % abs(n)
        return "(- %s)" % s if n < 0 else s

    # ---- terms
    def uterm(self, depth):
        r = self.r
        if depth <= 0 or r.random() < 0.45:
            return r.choice(self.uvars)
        k = r.random()
        if self.bargs and k < 0.2:
            return "(bf %s)" % self.formula(depth - 1)
        if k < 0.75 or not self.boolvars:
            f, n = r.choice(self.ufuns)
            return "(%s %s)" % (f, " ".join(self.uterm(depth - 1) for _ in range(n)))
        return "(ite %s %s %s)" % (self.formula(depth - 1), self.uterm(depth - 1), self.uterm(depth - 1))

    def nterm(self, depth):
        r = self.r
        if self.dl:
            return r.choice(self.numvars)
        if depth <= 0 or r.random() < 0.3:
            return r.choice(self.numvars) if r.random() < 0.8 else self.const()
        k = r.random()
        if k < 0.3:
            return "(+ %s)" % " ".join(self.nterm(depth - 1) for _ in range(r.randint(2, 3)))
        if k < 0.45:
            return "(- %s %s)" % (self.nterm(depth - 1), self.nterm(depth - 1))
        if k < 0.65:
            c = self.const()
            t = self.nterm(depth - 1)
            return "(* %s %s)" % ((c, t) if r.random() < 0.5 else (t, c))
        if k < 0.72:
            return "(- %s)" % self.nterm(depth - 1)
        if k < 0.8:
            return "(ite %s %s %s)" % (self.formula(depth - 1), self.nterm(depth - 1), self.nterm(depth - 1))
        if k < 0.86 and self.nfuns:
            return "(h %s)" % self.nterm(depth - 1)
        if k < 0.97 and self.num == "Int" and self.divmod:
            d = r.choice([2, 3, 4, 5, 7, -2, -3, -5])
            return "(%s %s %s)" % (r.choice(["div", "mod"]), self.nterm(depth - 1), self.lit(d))
        if self.num == "Real":
            return "(/ %s %s)" % (self.nterm(depth - 1), self.lit(r.choice([2, 3, 4, -2, 5])))
        return r.choice(self.numvars)

    def atom(self, depth):
        r = self.r
        kinds = ["b"]
        if self.num:
            kinds += ["n", "n", "n"]
        if self.usort:
            kinds += ["u", "u"]
        k = r.choice(kinds)
        if k == "b":
            return r.choice(self.boolvars)
        if k == "u":
            if self.bargs and r.random() < 0.3:
                return "(bq %s)" % self.formula(depth - 1)
            if self.upreds and r.random() < 0.3:
                return "(q %s)" % self.uterm(depth)
            if r.random() < 0.15 and len(self.uvars) >= 3:
                return "(distinct %s)" % " ".join(self.uterm(depth - 1) for _ in range(3))
            return "(= %s %s)" % (self.uterm(depth), self.uterm(depth))
        op = r.choice(["<=", "<", ">=", ">", "=", "<=", "<"])
        if self.dl:
            x, y = r.sample(self.numvars, 2) if len(self.numvars) >= 2 else (self.numvars[0], self.numvars[0])
            c = self.const(small=False)
            form = r.random()
            if form < 0.5:
                return "(%s (- %s %s) %s)" % (op, x, y, c)
            if form < 0.75:
                return "(%s %s %s)" % (op, x, y)
            if form < 0.9:
                return "(%s %s (+ %s %s))" % (op, x, y, c)
            return "(%s %s %s)" % (op, x, c)
        if r.random() < 0.1:
            return "(%s %s %s %s)" % (op if op != "=" else "<=", self.nterm(depth - 1), self.nterm(depth - 1), self.nterm(depth - 1))
        if r.random() < 0.07:
            return "(distinct %s %s)" % (self.nterm(depth), self.nterm(depth))
        return "(%s %s %s)" % (op, self.nterm(depth), self.nterm(depth) if r.random() < 0.6 else self.const(small=False))

    def formula(self, depth):
        r = self.r
        if depth <= 0 or r.random() < 0.3:
            a = self.atom(1 if depth <= 0 else depth)
            return a if r.random() < 0.7 else "(not %s)" % a
        k = r.random()
        sub = lambda: self.formula(depth - 1)
        if k < 0.3:
            return "(or %s)" % " ".join(sub() for _ in range(r.randint(2, 3)))
        if k < 0.5:
            return "(and %s)" % " ".join(sub() for _ in range(r.randint(2, 3)))
        if k < 0.62:
            return "(=> %s %s)" % (sub(), sub())
        if k < 0.72:
            return "(not %s)" % sub()
        if k < 0.8:
            return "(xor %s %s)" % (sub(), sub())
        if k < 0.88:
            return "(= %s %s)" % (sub(), sub())
        if k < 0.93:
            return "(ite %s %s %s)" % (sub(), sub(), sub())
        if r.random() < 0.5 and len(self.boolvars) >= 2:
            # parallel let shadowing declared names: the second binding must see the OUTER first name; the body uses both
            a, b = r.sample(self.boolvars, 2)
            return "(let ((%s %s) (%s %s)) (%s %s %s %s))" % (a, sub(), b, a, r.choice(["and", "or", "="]), b, r.choice([a, "(not %s)" % a]), sub()) \
                if r.random() < 0.7 else "(let ((%s %s) (%s %s)) %s)" % (a, sub(), b, a, sub())
        if r.random() < 0.5 and len(self.numvars) >= 2 and not self.dl:
            a, b = r.sample(self.numvars, 2)
            return "(let ((%s %s) (%s (+ %s 1))) (and (%s %s %s) %s))" % (a, self.nterm(1), b, a, r.choice(["<=", "<", "=", ">="]), b, self.nterm(1), sub())
        return "(let ((?l %s)) (or ?l %s))" % (sub(), sub())


def gen_script(rng, logic=None, incremental=False, options=(), produce_models=True, big=False, nassert=None,
               named=False, queries=("model",), logics=None, depth=None, divmod=True, numprefix="v", force_bargs=False, p_special=0.3):
    """Returns (text, meta). A single-check or incremental script."""
    logic = logic or rng.choice(logics or LOGICS_MODEL)
    g = Gen(rng, logic, big=big, divmod=divmod, numprefix=numprefix, force_bargs=force_bargs)
    lines = []
    for o in options:
        lines.append("(set-option %s)" % o)
    if produce_models:
        lines.append("(set-option :produce-models true)")
    lines.append("(set-logic %s)" % ("QF_UF" if logic == "QF_BOOL" else logic))
    lines += g.decls
    depth = depth or rng.randint(1, 3)
    ncheck = 0
    nm = [0]

    def special():
        """top-level shapes the preprocessing has dedicated code for: defining equalities (substitution), unit literals,
        Boolean definitions, equality diamonds (learnt transitivity), nested ite, wide distinct"""
        k = rng.random()
        if g.bargs and rng.random() < 0.4:
            # the Boolean domain has two elements: pigeonhole through uninterpreted symbols over Booleans seen nowhere else
            a, b, c = rng.sample(["pb0", "pb1", "pb2"], 3)
            j = rng.random()
            if j < 0.25:
                return "(and (bq %s) (not (bq %s)) (not (bq (not %s))))" % (a, b, b)
            if j < 0.45:
                return "(distinct (bf %s) (bf %s) (bf %s))" % (a, b, c)
            if j < 0.55:
                return "(and (not (= (bf %s) (bf %s))) (not (= (bf %s) (bf %s))) (= %s (bq %s)))" % (a, b, a, c, rng.choice(g.boolvars), b)
            if j < 0.62 and g.num and not g.dl:
                # an arithmetic (dis)equality as the Boolean argument: it must be interpreted by the arithmetic solver as well
                x = rng.choice(g.numvars)
                c = rng.randint(-3, 5)
                inner = rng.choice(["(= %s %d)" % (x, c) if c >= 0 else "(= %s (- %d))" % (x, -c), "(= (* 3 %s) %s)" % (x, "7" if g.num == "Int" else "6.0"), "(distinct %s %s)" % (x, rng.choice(g.numvars))])
                cs = "%d" % c if c >= 0 else "(- %d)" % -c
                return "(and (<= %s %s) (>= %s %s) (not (= (bf %s) (bf %s))))" % (x, cs, x, cs, inner, rng.choice(["true", "false"]))
            if j < 0.7:
                # a Boolean combination that occurs ONLY below bf (never as a formula of its own), its components forced elsewhere
                q, r2 = rng.sample(g.boolvars, 2)
                comp = rng.choice(["(and %s %s)" % (q, r2), "(=> (not %s) (bq %s))" % (q, r2), "(or (not %s) (not %s))" % (q, r2), "(xor %s %s)" % (q, r2)])
                s3 = rng.choice(["pb0", "pb1", "pb2"])
                forced = " ".join("(or %s %s) (or %s (not %s))" % (x, s3, x, s3) for x in (q, r2))
                val = {"(an": "true", "(=>": "true", "(or": "false", "(xo": "false"}[comp[:3]]
                return "(and %s (not (= (bf %s) (bf %s))))" % (forced, comp, val)
            if j < 0.92 and len(g.uvars) >= 3:
                # a compound Boolean term (distinct / equality) as the argument: its truth value must reach the congruence closure
                d = "(distinct %s)" % " ".join(rng.sample(g.uvars, 3)) if rng.random() < 0.8 else "(= %s %s)" % tuple(rng.sample(g.uvars, 2))
                pv = rng.choice(g.boolvars)
                return "(and (or %s %s) (or (not %s) %s) (not (= (bf %s) (bf true))))" % (pv, d, pv, d, d)
            return "(= (bq %s) (not (bq (not (not %s)))))" % (a, a)
        if g.nfuns and rng.random() < 0.3:
            # numeric UF applications that occur only under =/distinct (never purified into arithmetic): the model builder
            # must give them values distinct from the arithmetic solver's values of the variables they are kept apart from
            x = rng.choice(g.numvars)
            c = rng.randint(0, 3)
            j = rng.random()
            if j < 0.4:
                return "(and (>= %s %d) (not (= (h %d) %s)))" % (x, c + rng.randint(0, 2), c, x)
            if j < 0.7:
                return "(distinct (h %d) %s (h %s))" % (c, x, rng.choice(g.numvars))
            return "(and (not (= (h %s) %s)) (<= %d %s))" % (rng.choice(g.numvars), x, c, x)
        if g.num == "Int" and g.divmod and not g.dl and rng.random() < 0.35:
            # several div/mod applications over ONE dividend with divisors n and -n (and another n): the elimination shares
            # auxiliary variables between them
            x = rng.choice(g.numvars)
            d = x if rng.random() < 0.6 else g.nterm(1)
            n = rng.choice([2, 3, 4, 5, 7])
            a, b = rng.choice(["div", "mod"]), rng.choice(["div", "div", "mod"])
            j = rng.random()
            if j < 0.4:
                return "(and (= (%s %s %d) %d) (= (%s %s (- %d)) %s))" % (a, d, n, rng.randint(-2, 3), b, d, n, g.const())
            if j < 0.7:
                return "(%s (+ (div %s %d) (div %s (- %d))) %s)" % (rng.choice(["=", "<=", "distinct"]), d, n, d, n, g.const())
            return "(and (%s (%s %s %d) (%s %s (- %d))) (not (= %s 0)))" % (rng.choice(["=", "<", "distinct"]), a, d, n, b, d, n, x)
        if g.usort and g.ufuns and rng.random() < 0.2:
            # a distinct whose arguments are already members (not representatives) of merged classes when it is asserted, followed by
            # an equality that merges two of its arguments (unsat) or an argument with an outsider (sat); compound terms only, so
            # that no substitution removes the equalities
            def comp():
                f, n = rng.choice(g.ufuns)
                return "(%s %s)" % (f, " ".join(rng.choice(g.uvars) for _ in range(n)))
            pool = []
            for _ in range(40):
                c = comp()
                if c not in pool:
                    pool.append(c)
                if len(pool) == 5:
                    break
            if len(pool) == 5:
                t0, t1, t2, t3, t4 = pool
                last = "(= %s %s)" % (t0, t2 if rng.random() < 0.6 else t4)
                parts = ["(= %s %s)" % ((t0, t1) if rng.random() < 0.5 else (t1, t0)), "(distinct %s %s %s)" % (t1, t2, t3 if rng.random() < 0.7 else rng.choice(g.uvars)), last]
                return "(and %s)" % " ".join(parts)
        if k < 0.3 and g.num and not g.dl:
            return "(= %s %s)" % (rng.choice(g.numvars), g.nterm(2))
        if k < 0.4 and g.usort:
            return "(= %s %s)" % (rng.choice(g.uvars), g.uterm(2))
        if k < 0.55:
            b = rng.choice(g.boolvars)
            return rng.choice([b, "(not %s)" % b, "(= %s %s)" % (b, g.formula(2)), "false", "(and %s (not %s))" % (b, b)])
        if k < 0.75 and g.usort and len(g.uvars) >= 3:
            vs = rng.sample(g.uvars, 4) if len(g.uvars) >= 4 else [rng.choice(g.uvars) for _ in range(4)]
            x, w, y, z = vs
            dia = "(and (= %s %s) (= %s %s)) (and (= %s %s) (= %s %s))" % (x, w, w, z, x, y, y, z)
            # a further disjunct that is a NEW compound term (created after the diamond, so it sorts behind it)
            extra = "" if rng.random() < 0.4 else " (= %s %s)" % (g.uterm(2), g.uterm(1))
            return "(or %s%s)" % (dia, extra)
        if k < 0.85 and g.num and not g.dl:
            return "(%s (ite %s (ite %s %s %s) %s) %s)" % (rng.choice(["<=", "=", "<"]), g.formula(1), g.formula(1), g.nterm(1), g.nterm(1), g.nterm(1), g.nterm(1))
        if g.usort and len(g.uvars) >= 3:
            return "(distinct %s)" % " ".join(g.uterm(1) for _ in range(rng.randint(3, 5)))
        if g.num and not g.dl:
            return "(distinct %s)" % " ".join(g.nterm(1) for _ in range(3))
        return g.formula(2)

    def one_assert():
        f = special() if rng.random() < p_special else g.formula(depth)
        if named and rng.random() < 0.7:
            nm[0] += 1
            return "(assert (! %s :named n%d))" % (f, nm[0])
        return "(assert %s)" % f

    def queries_after():
        out = []
        if "model" in queries:
            out.append("(get-model)")
        if "value" in queries:
            ts = []
            for _ in range(rng.randint(1, 4)):
                k = rng.random()
                if k < 0.4 or not (g.num or g.usort):
                    ts.append(g.formula(1))
                elif g.num and (k < 0.8 or not g.usort):
                    ts.append(g.nterm(2))
                else:
                    ts.append(g.uterm(2))
            out.append("(get-value (%s))" % " ".join(ts))
        if "assignment" in queries:
            out.append("(get-assignment)")
        return out

    if not incremental:
        for _ in range(nassert or rng.choice([2, 3, 4, 5, 6, 7, 8, 10, 12])):
            lines.append(one_assert())
        lines.append("(check-sat)")
        ncheck = 1
        lines += queries_after()
    else:
        level = 0
        steps = rng.randint(6, 16)
        for _ in range(steps):
            k = rng.random()
            if k < 0.45:
                lines.append(one_assert())
            elif k < 0.6 and level < 4:
                n = 1 if rng.random() < 0.8 else 2
                lines.append("(push %d)" % n)
                level += n
            elif k < 0.75 and level > 0:
                n = rng.randint(1, level) if rng.random() < 0.3 else 1
                lines.append("(pop %d)" % n)
                level -= n
            else:
                lines.append("(check-sat)")
                ncheck += 1
                lines += queries_after()
        lines.append("(check-sat)")
        ncheck += 1
        lines += queries_after()
    return "\n".join(lines) + "\n", dict(logic=logic, checks=ncheck, incremental=incremental)
