"""Tie between the clausifier of the working tree and the Coq model of the clausal translation (coq/Cnf):
from a hooked trace, per check-sat, the clauses handed to the SAT engine for the live frames (`ot` events) and the
preprocessed formulas they were produced from (`pp` events) are compared with the extracted verified truth-table
checker: every clause must follow from the formulas, and the clauses together must imply the formulas."""
import re
import smtlib
from smtlib import sx_str

BOOL_OPS = {"and", "or", "not", "xor", "=>", "="}


class Skel:
    def __init__(self, sig):
        self.sig = sig
        self.el = smtlib.Elab(sig)
        self.atoms = {}

    def atom(self, t):
        k = sx_str(t)
        if k not in self.atoms:
            self.atoms[k] = len(self.atoms) + 1
        return "(a %d)" % self.atoms[k]

    def is_bool(self, t):
        try:
            return self.el.infer(t, {}) == "B"
        except Exception:
            return False

    def fm(self, t):
        if isinstance(t, str):
            if t == "true":
                return "(true)"
            if t == "false":
                return "(false)"
            return self.atom(t)
        h = t[0]
        if h == "not" and len(t) == 2:
            return "(not %s)" % self.fm(t[1])
        if h in ("and", "or"):
            return "(%s %s)" % (h, " ".join(self.fm(x) for x in t[1:]))
        if h == "xor" and len(t) == 3:
            return "(xor %s %s)" % (self.fm(t[1]), self.fm(t[2]))
        if h == "=>" and len(t) == 3:
            return "(imp %s %s)" % (self.fm(t[1]), self.fm(t[2]))
        if h == "=" and len(t) == 3 and self.is_bool(t[1]) and self.is_bool(t[2]):
            return "(iff %s %s)" % (self.fm(t[1]), self.fm(t[2]))
        return self.atom(t)


def conj(fs):
    return "(and %s)" % " ".join(fs) if fs else "(true)"


def queries_from_trace(path, sig, max_atoms=14):
    """Returns list of (check index, kind, wire formula, description) to be judged valid, plus counters."""
    evs = []
    inst_ms = None
    for line in open(path, errors="replace"):
        if line.startswith(("(pp ", "(ot ", "(ms ")):
            try:
                evs.append(smtlib.read_all(line)[0])
            except smtlib.ParseError:
                return None, {"unparsable": 1}
    # declare auxiliary variables
    known = set(sig.funs)
    for e in evs:
        if e[0] == "pp":
            for v in e[5]:
                n = smtlib.unquote(v[0])
                if n not in known:
                    known.add(n)
                    try:
                        sig.declare_fun(v[0], [], sig.sort_of_sx(v[1]))
                    except smtlib.ParseError:
                        pass
    sk = Skel(sig)
    R, C = {}, {-1: []}       # frame index -> formulas / clauses (wire skeletons); -1 = before any frame (constants)
    cur = -1
    out, stats, k = [], {"checks": 0, "skipped-too-many-atoms": 0}, 0
    ms_inst = None
    for e in evs:
        if e[0] == "ms":
            if ms_inst is None:
                ms_inst = e[1]
            if e[1] != ms_inst:
                continue
            n = int(e[3][1])
            if e[2] == "pop":
                for d in (R, C):
                    for i in [i for i in d if i >= n]:
                        del d[i]
                cur = -1
            if e[2] == "check":
                k += 1
                res = [x for x in e[3:] if isinstance(x, list) and x and x[0] == "result"]
                via = [x for x in e[3:] if isinstance(x, list) and x and x[0] == "via"]
                if via and via[0][1] == "flag":
                    continue
                Rs = [r for i in sorted(R) if i < n for r in R[i]]
                Cl = [c for i in sorted(C) if i < n for c in C[i]]
                if not Rs:
                    continue
                if len(sk.atoms) > max_atoms:
                    stats["skipped-too-many-atoms"] += 1
                    continue
                stats["checks"] += 1
                for c in Cl:
                    out.append((k, "clause-follows-from-formula", "(imp %s %s)" % (conj(Rs), c), c))
                out.append((k, "clauses-imply-formula", "(imp %s %s)" % (conj(Cl), conj(Rs)), "%d clauses" % len(Cl)))
        elif e[0] == "pp":
            if ms_inst is None:
                ms_inst = e[1]
            if e[1] != ms_inst:
                continue
            cur = int(e[2])
            w = sk.fm(e[4])
            R.setdefault(cur, [])
            if w not in R[cur]:
                R[cur].append(w)
            C.setdefault(cur, [])
        elif e[0] == "ot":
            lits = [l for l in e[2] if not (isinstance(l, str) and l.startswith(".frame"))]
            w = "(or %s)" % " ".join(sk.fm(l) for l in lits) if lits else "(false)"
            C.setdefault(cur, []).append(w)
    stats["atoms"] = len(sk.atoms)
    return out, stats
