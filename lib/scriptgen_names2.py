"""C17: adversarial symbol names, renaming of generated scripts, and the glue around the extracted reader/printer
model (ocaml/print_driver.ml) and the C++ harness (harness/h_print.cc).

A generated script exists twice: the *plain* script (names p0, a1, f, U, n3 ... from lib/scriptgen.py), which the
oracles and the verified evaluator see, and the *concrete* script in which every symbol carries an adversarial
name.  Everything opensmt prints for the concrete script is read by the extracted Coq reader and mapped back to
plain names (the mapping is a bijection fixed when the script is generated); what cannot be mapped back is a
violation candidate."""
import re
import subprocess

import smtlib


def hx(s):
    b = s.encode("latin1", errors="replace")
    return b.hex() if b else "-"


def un(h):
    return "" if h == "-" else bytes.fromhex(h).decode("latin1")


class Proc:
    """A line-oriented request/answer subprocess (driver or harness)."""

    def __init__(self, exe):
        self.exe = exe
        self.p = None
        self.requests = 0

    def start(self):
        self.p = subprocess.Popen([self.exe], stdin=subprocess.PIPE, stdout=subprocess.PIPE, stderr=subprocess.DEVNULL,
                                  text=True, bufsize=1)

    def ask(self, line):
        if self.p is None or self.p.poll() is not None:
            self.start()
        self.requests += 1
        try:
            self.p.stdin.write(line + "\n")
            self.p.stdin.flush()
            out = self.p.stdout.readline()
        except (BrokenPipeError, OSError):
            out = ""
        if not out:
            rc = self.p.poll()
            self.p = None
            return "DIED rc=%s" % rc
        return out.rstrip("\n")

    def ask_many(self, lines):
        return [self.ask(l) for l in lines]

    def close(self):
        if self.p is not None:
            try:
                self.p.stdin.close()
                self.p.wait(timeout=5)
            except Exception:
                self.p.kill()
            self.p = None


# ---------------------------------------------------------------------------------------------
# names
# ---------------------------------------------------------------------------------------------
SIMPLE_EXTRA = "~!@$%^&*_-+=<>.?/"
CORE_SYMBOLS = {"true", "false", "not", "and", "or", "xor", "=>", "=", "distinct", "ite"}
ARITH_SYMBOLS = {"+", "-", "*", "/", "<", "<=", ">", ">=", "div", "mod", "abs", "to_real", "to_int", "is_int"}
TABLE_WORDS = ["let", "par", "as", "exists", "forall", "assert", "check-sat", "push", "pop", "exit", "echo", "theory",
               "get-model", "get-value", "declare-fun", "define-fun", "set-logic", "get-info", "simplify",
               "none", "decimal", "numeral", "string", "write-state", "read-state", "write-funs", "get-interpolants"]
MISSING_BOTH = ["_", "!", "DECIMAL", "NUMERAL", "STRING"]
MISSING_STD = ["BINARY", "HEXADECIMAL", "match", "check-sat-assuming", "declare-datatype", "declare-datatypes",
               "define-fun-rec", "define-funs-rec", "get-unsat-assumptions", "reset", "reset-assertions"]
NUMLIKE = ["-5", "-12/7", "-0.5", "-1.50", "-7", "-3/2", "-10.25"]
SOLVER_RESERVED = ["@0", "@1", "@d1", "@d2", "@a", ".frame0", ".frame1", ".ite1", ".arg0", ".purify_1", ".purify_2", ".x"]
INTERNAL_LIKE = ["x0", "x1", "x2", "x3", "x4", "x!0", "x!1", "x!2", "y!0", "r0", "r1", "?def0", "?def1", "UFDefault", "x", "y"]
SORTLIKE = ["Int", "Real", "Bool", "Array", "U", "BitVec"]

GOOD_CLASSES = ["plain", "simple-special", "quoted-space", "quoted-paren", "quoted-semicolon", "quoted-dquote",
                "quoted-newline", "quoted-misc", "quoted-utf8", "quoted-cr", "digit-leading", "reserved-in-table",
                "sortlike", "internal-like", "long"]
BAD_CLASSES = ["reserved-missing", "reserved-std-only", "numlike", "empty"]
OTHER_CLASSES = ["solver-reserved", "arith-op-in-uf"]


def _word(rng, lo=1, hi=6):
    return "".join(rng.choice("abcdefghijklmnopqrstuvwxyzABCXYZ") for _ in range(rng.randint(lo, hi)))


def gen_name(rng, cls):
    r = rng
    if cls == "plain":
        return r.choice("abcdefghijklmnopqrstuvwz") + "".join(r.choice("abcdefghijklmnopqrstuvwxyz0123456789") for _ in range(r.randint(0, 5)))
    if cls == "simple-special":
        k = r.random()
        if k < 0.3:
            return _word(r, 1, 3) + r.choice(["!", ".", "_", "$", "?", "~", "^", "&", "%", "*", "=", "<", ">", "/", "+", "-"]) + _word(r, 0, 3)
        if k < 0.5:
            return r.choice(["?", "$", "~", "&", "^", "%", "_", "<", "="]) + _word(r, 1, 3)
        if k < 0.7:
            return r.choice(["<=>", "&&", "||".replace("|", "^"), "->", "=>>", "!!", "__", "?:", "$$", "~~", "x_1", "a-b", "a/b", "a+b", "-x", "-a5", "+5", "--", "-.5", "-/", "x'".replace("'", "_")])
        return "".join(r.choice("abcxyz" + SIMPLE_EXTRA) for _ in range(r.randint(2, 7)))
    if cls == "quoted-space":
        return r.choice([_word(r) + " " + _word(r), " " + _word(r), _word(r) + " ", " ", "  ", _word(r) + "\t" + _word(r), "a  b c"])
    if cls == "quoted-paren":
        return r.choice(["(", ")", "()", "(" + _word(r), _word(r) + ")", "f(x)", "(a b)", ")(", "((", "a)b(c"])
    if cls == "quoted-semicolon":
        return r.choice([";", _word(r) + ";" + _word(r), "; comment", "a;", ";;", "x ; y"])
    if cls == "quoted-dquote":
        return r.choice(['"', '""', '"' + _word(r) + '"', _word(r) + '"', 'say "hi"', '"(', 'a"b'])
    if cls == "quoted-newline":
        return r.choice([_word(r) + "\n" + _word(r), "\n", "a\n\nb", "x\n", "\ny", "l1\nl2\nl3"])
    if cls == "quoted-misc":
        return r.choice(["#", "#x1F", "#b01", ",", "a,b", ":", ":kw", "a:b", "'", "it's", "[", "a[0]", "{x}", "`", "a`b", "x#", "~a b", "a=b c"])
    if cls == "quoted-utf8":
        return r.choice(["é", "naïve", "日本", "αβ", "x²", "über f"]).encode("utf-8").decode("latin1")
    if cls == "quoted-cr":
        return r.choice(["a\rb", "\r", "x\r\ny"])
    if cls == "digit-leading":
        return r.choice(["0", "1", "12", "007", "1a", "3.14", "12abc", "9_9", "0x10", "2+2", "1 2", "5/3", "1e5", "00"])
    if cls == "reserved-in-table":
        return r.choice(TABLE_WORDS)
    if cls == "sortlike":
        return r.choice(SORTLIKE)
    if cls == "internal-like":
        return r.choice(INTERNAL_LIKE)
    if cls == "formal-parameter-like":
        return r.choice(["x0", "x1", "x2", "x3", "x4", "x5"])
    if cls == "long":
        n = r.choice([64, 200, 1000, 3000])
        base = "".join(r.choice("abcdefghijklmnopqrstuvwxyz_0123456789") for _ in range(n))
        return ("L" + base) if r.random() < 0.6 else ("L " + base)
    if cls == "reserved-missing":
        return r.choice(MISSING_BOTH)
    if cls == "reserved-std-only":
        return r.choice(MISSING_STD)
    if cls == "numlike":
        return r.choice(NUMLIKE)
    if cls == "empty":
        return ""
    if cls == "solver-reserved":
        return r.choice(SOLVER_RESERVED)
    if cls == "arith-op-in-uf":
        return r.choice(["+", "-", "*", "/", "<", "<=", ">", ">=", "div", "mod"])
    raise ValueError(cls)


def forbidden_names(logic):
    f = set(CORE_SYMBOLS)
    if logic != "QF_UF":
        f |= ARITH_SYMBOLS
    return f


def pick_names(rng, n, classes, logic, taken=()):
    """n distinct names drawn from the given classes (with repetition of classes), none a theory symbol of the logic."""
    out, seen = [], set(taken)
    forb = forbidden_names(logic)
    guard = 0
    while len(out) < n and guard < 10000:
        guard += 1
        cls = rng.choice(classes)
        nm = gen_name(rng, cls)
        if nm in seen or nm in forb:
            continue
        if "|" in nm or "\\" in nm:
            continue
        seen.add(nm)
        out.append((nm, cls))
    while len(out) < n:          # not enough distinct names in the classes: fill with plain ones
        nm = "zz%d" % len(out)
        if nm not in seen:
            seen.add(nm)
            out.append((nm, "plain"))
    return out


# ---------------------------------------------------------------------------------------------
# the extracted model
# ---------------------------------------------------------------------------------------------
class Model:
    def __init__(self, exe):
        self.proc = Proc(exe)
        self._quote = {}
        self._protect = {}

    def quote(self, name):
        """input-side spelling: bare only when both the SMT-LIB reader and opensmt's lexer read it bare"""
        if name not in self._quote:
            a = un(self.proc.ask("Q s " + hx(name)))
            b = un(self.proc.ask("Q o " + hx(name)))
            self._quote[name] = a if a == b else "|" + name + "|"
        return self._quote[name]

    def protect(self, name, variant="f", interp=False):
        k = (name, variant, interp)
        if k not in self._protect:
            w = self.proc.ask("P %s %d %s" % (variant, 1 if interp else 0, hx(name))).split(" ")
            self._protect[k] = (un(w[0]), _rd(w[1]), _rd(w[2]))
        return self._protect[k]

    def read_symbol(self, text):
        w = self.proc.ask("X " + hx(text)).split(" ")
        return _rd(w[0]), _rd(w[1])

    def read(self, text, cfg="s"):
        """('ok', [sexp...]) | ('lex', None) | ('unbalanced', None)"""
        a = self.proc.ask("L %s %s" % (cfg, hx(text)))
        if a.startswith("OK"):
            return "ok", parse_wire(a[2:].strip())
        if a == "E":
            return "lex", None
        if a == "U":
            return "unbalanced", None
        return "driver:" + a[:40], None


def _rd(w):
    return None if w == "N" else un(w[1:])


def parse_wire(s):
    """wire form -> nested lists; atoms are (kind, text) tuples"""
    stack, cur = [], []
    for t in s.split():
        if t == "(":
            stack.append(cur)
            cur = []
        elif t == ")":
            done = cur
            cur = stack.pop()
            cur.append(done)
        elif t == "()":
            cur.append([])
        else:
            k, _, h = t.partition(":")
            cur.append((k, un(h)))
    return cur


def wire_str(e):
    """canonical text of a wire sexp (for comparison and messages)"""
    if isinstance(e, list):
        return "(" + " ".join(wire_str(x) for x in e) + ")"
    return "%s:%s" % (e[0], e[1])


# ---------------------------------------------------------------------------------------------
# renaming
# ---------------------------------------------------------------------------------------------
PLAIN_SYMBOL = re.compile(r"^(p\d+|a\d+|v\d+|f|g|q|h)$")
PLAIN_LABEL = re.compile(r"^n\d+$")


class Renaming:
    """plain name <-> adversarial name for function symbols, sorts, :named labels and let variables."""

    def __init__(self):
        self.fun = {}      # plain -> adversarial
        self.sort = {}
        self.label = {}
        self.letvar = {}
        self.classes = {}  # adversarial -> class label

    def inverse(self):
        inv = {}
        for d, kind in ((self.fun, "fun"), (self.sort, "sort"), (self.label, "label"), (self.letvar, "let")):
            for k, v in d.items():
                inv.setdefault(v, []).append((kind, k))
        return inv


def plain_symbols(text):
    """(funs in declaration order, sorts, labels, let variables) of a plain generated script"""
    cmds = smtlib.read_all(text)
    funs, sorts, labels, lets = [], [], [], []

    def walk(t):
        if isinstance(t, list):
            if t and t[0] == "!" and ":named" in t:
                nm = t[t.index(":named") + 1]
                if nm not in labels:
                    labels.append(nm)
            if t and t[0] == "let":
                for b in t[1]:
                    if b[0] not in lets:
                        lets.append(b[0])
            for x in t:
                walk(x)
    for c in cmds:
        if not isinstance(c, list) or not c:
            continue
        if c[0] == "declare-sort":
            sorts.append(c[1])
        elif c[0] in ("declare-fun", "declare-const"):
            funs.append(c[1])
        elif c[0] in ("assert", "get-value", "get-interpolants"):
            walk(c)
    return funs, sorts, labels, lets


def rename_text(text, ren, model, markers=True):
    """The concrete script: every renamed symbol spelled as the reference printer spells it.  With markers, an
    (echo "@@<k>") follows every command so that the output can be cut into per-command segments even when it is not
    an s-expression sequence.  Returns (concrete text, the plain command s-expressions in order, the concrete
    commands as (head, text) in the same order)."""
    cmds = smtlib.read_all(text)

    def spell(name):
        return model.quote(name)

    def term(t, bound):
        if isinstance(t, list):
            if t and t[0] == "let":
                bs = []
                b2 = set(bound)
                for b in t[1]:
                    bs.append("(%s %s)" % (spell(ren.letvar.get(b[0], b[0])), term(b[1], bound)))
                    b2.add(b[0])
                return "(let (%s) %s)" % (" ".join(bs), term(t[2], b2))
            if t and t[0] == "!":
                out = ["!", term(t[1], bound)]
                i = 2
                while i < len(t):
                    if t[i] == ":named":
                        out += [":named", spell(ren.label.get(t[i + 1], t[i + 1]))]
                        i += 2
                    else:
                        out.append(t[i] if isinstance(t[i], str) else term(t[i], bound))
                        i += 1
                return "(" + " ".join(out) + ")"
            if t and t[0] == "as":
                return "(as %s %s)" % (term(t[1], bound), sort(t[2]))
            return "(" + " ".join(term(x, bound) for x in t) + ")"
        if t in bound:
            return spell(ren.letvar.get(t, t))
        if t in ren.fun:
            return spell(ren.fun[t])
        if t in ren.label:
            return spell(ren.label[t])
        return t

    def sort(s):
        if isinstance(s, list):
            return "(" + " ".join(sort(x) for x in s) + ")"
        return spell(ren.sort[s]) if s in ren.sort else s

    out = []
    conc = []
    k = 0
    for c in cmds:
        if not isinstance(c, list) or not c:
            conc.append(("", ""))
            k += 1
            continue
        h = c[0]
        if h == "declare-sort":
            line = "(declare-sort %s %s)" % (spell(ren.sort.get(c[1], c[1])), c[2])
        elif h == "declare-fun":
            line = "(declare-fun %s (%s) %s)" % (spell(ren.fun.get(c[1], c[1])), " ".join(sort(s) for s in c[2]), sort(c[3]))
        elif h == "declare-const":
            line = "(declare-const %s %s)" % (spell(ren.fun.get(c[1], c[1])), sort(c[2]))
        elif h == "assert":
            line = "(assert %s)" % term(c[1], set())
        elif h == "get-value":
            line = "(get-value (%s))" % " ".join(term(t, set()) for t in c[1])
        elif h == "get-interpolants":
            line = "(get-interpolants %s)" % " ".join(term(t, set()) for t in c[1:])
        else:
            line = smtlib.sx_str(c)
        out.append(line)
        conc.append((h, line))
        if markers and h not in ("exit",):
            out.append('(echo "@@%d")' % k)
        k += 1
    return "\n".join(out) + "\n", cmds, conc


def split_segments(stdout, ncmds):
    """Output of a marked run -> list (per command index) of text or None when the marker never arrived."""
    segs = [None] * ncmds
    pos = 0
    for k in range(ncmds):
        m = "@@%d\n" % k
        i = stdout.find(m, pos)
        if i < 0:
            continue
        segs[k] = stdout[pos:i]
        pos = i + len(m)
    return segs, stdout[pos:]


# ---------------------------------------------------------------------------------------------
# mapping printed text back to plain names
# ---------------------------------------------------------------------------------------------
class Unmapped(Exception):
    def __init__(self, what, name):
        Exception.__init__(self, "%s %r" % (what, name))
        self.what, self.name = what, name


BUILTIN_HEADS = CORE_SYMBOLS | ARITH_SYMBOLS


def to_plain(e, inv, bound=None, allow_params=True, sort_pos=False):
    """wire sexp -> plain sexp (nested lists of str as lib/smtlib reads them).  inv: adversarial name -> [(kind, plain)].
    Names that are neither renamed symbols, nor builtins, nor bound parameters, nor abstract values raise Unmapped."""
    bound = bound or {}
    if isinstance(e, list):
        if e and e[0] == ("r", "as") and len(e) == 3:
            nm = e[1]
            s = to_plain(e[2], inv, bound, allow_params, sort_pos=True)
            if isinstance(nm, tuple) and nm[0] == "y":
                if nm[1] in bound:
                    return ["as", bound[nm[1]], s]
                ks = [p for (k, p) in inv.get(nm[1], []) if k == "fun"]
                if ks:
                    return ["as", ks[0], s]
                if nm[1].startswith("@"):
                    return ["as", nm[1], s]
            raise Unmapped("qualified identifier", wire_str(e))
        if e and e[0] == ("r", "let") and len(e) == 3:
            b2 = dict(bound)
            bs = []
            for b in e[1]:
                if not (isinstance(b, list) and len(b) == 2 and isinstance(b[0], tuple) and b[0][0] == "y"):
                    raise Unmapped("let binding", wire_str(b))
                v = "?lv%d" % len(b2)
                bs.append([v, to_plain(b[1], inv, bound, allow_params)])
                b2[b[0][1]] = v
            return ["let", bs, to_plain(e[2], inv, b2, allow_params)]
        return [to_plain(x, inv, bound, allow_params, sort_pos) for x in e]
    k, t = e
    if k in ("n", "d"):
        return t
    if k == "r":
        raise Unmapped("reserved word in symbol position", t)
    if k == "k":
        return ":" + t
    if k == "y":
        if sort_pos:
            if t in ("Bool", "Int", "Real"):
                return t
            ks = [p for (kk, p) in inv.get(t, []) if kk == "sort"]
            if ks:
                return ks[0]
            raise Unmapped("sort", t)
        if t in bound:
            return bound[t]
        ks = [p for (kk, p) in inv.get(t, []) if kk == "fun"]
        if ks:
            return ks[0]
        if t in BUILTIN_HEADS:
            return t
        ks = [p for (kk, p) in inv.get(t, []) if kk == "label"]
        if ks:
            return ks[0]
        raise Unmapped("symbol", t)
    raise Unmapped("token", "%s:%s" % (k, t))
