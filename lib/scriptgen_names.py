"""Script generator for C21 / C19 (owner: work package names).

Produces push/pop histories with :named terms (top-level and nested), define-fun, re-introductions,
references to popped/live names and functions, queries that print names -- both as concrete SMT-LIB
text (one command per line) and as the abstract commands of coq/Front/InterpBook.v (the encoding
ocaml/names_driver.ml reads).  Also produces rejected commands of many kinds to inject (C19).

Term identity: every assertion body is a literal or an and/or of 2..3 literals over DISTINCT atoms in
ascending atom order, so that equal text <=> equal hash-consed term in the solver; ids are handed out
per distinct un-annotated text.  (checks verify the id <-> PTRef bijection on every run.)
"""

LOGICS = ("QF_UF", "QF_LRA", "QF_LIA")


class Cmd:
    __slots__ = ("text", "abs", "kind", "injected", "meta")

    def __init__(self, text, abs_, kind, injected=False, **meta):
        self.text, self.abs, self.kind, self.injected, self.meta = text, abs_, kind, injected, meta

    def __repr__(self):
        return "Cmd(%s)" % self.text


class Gen:
    def __init__(self, rng, logic=None, mode=None, glob=None):
        self.rng = rng
        self.logic = logic or rng.choice(LOGICS)
        self.mode = mode or rng.choice(("core", "itp"))
        self.glob = rng.random() < 0.2 if glob is None else glob
        lg = self.logic
        self.bools = ["p0", "p1", "p2", "p3"]
        if lg == "QF_UF":
            self.sort = "U"
            self.atoms = self.bools + ["(= x0 x1)", "(= x1 x2)", "(= (g x0) x1)", "(= (g x1) x2)", "(= x0 (g x2))"]
            self.nonbool = ["x0", "(g x1)", "x2"]
        else:
            self.sort = "Real" if lg == "QF_LRA" else "Int"
            self.atoms = self.bools + ["(<= x0 0)", "(<= x1 2)", "(<= (+ x0 x1) 3)", "(<= (- x1 x2) (- 1))",
                                       "(<= 5 x2)", "(<= (- x0 x2) 4)"]
            self.nonbool = ["x0", "(+ x1 1)", "(- x2 x0)"]
        self.ids = {}
        self.NF = 6          # function names f0..f5
        self.NN = 10         # names n0..n9
        # generator-side bookkeeping (only steers generation; never used for judging)
        self.scopes = [dict(names=set(), funs={})]
        self.glob_names, self.glob_funs = set(), {}
        self.popped_names, self.popped_funs = set(), set()
        self.asserted = []   # formulas asserted so far
        self.named_top = {}  # live name -> formula (top-level named assertions only)
        self.named_lvl = {}  # the same names -> level of their assertion
        self.syms = {}       # declared symbol text -> index
        self.inited = False

    # ---- ids / text ---------------------------------------------------------------------------
    def tid(self, text):
        if text not in self.ids:
            self.ids[text] = len(self.ids) + 1
        return self.ids[text]

    def lit_text(self, lit):
        a, pos = lit
        return self.atoms[a] if pos else "(not %s)" % self.atoms[a]

    def plain(self, f):
        if f[0] == "lit":
            return self.lit_text(f[1])
        if f[0] == "fun":
            return self.plain(f[2])          # a defined function instantiates to its body
        return "(%s %s)" % (f[0], " ".join(self.lit_text(l) for l in f[1]))

    def rand_lit(self):
        return (self.rng.randrange(len(self.atoms)), self.rng.random() < 0.55)

    def rand_formula(self):
        r = self.rng.random()
        if r < 0.5:
            return ("lit", self.rand_lit())
        k = 2 if r < 0.85 else 3
        atoms = sorted(self.rng.sample(range(len(self.atoms)), k))
        lits = [(a, self.rng.random() < 0.55) for a in atoms]
        return (self.rng.choice(("or", "or", "and")), lits)

    def annotated(self, f, inner, outer):
        """text with (! .. :named ..) wrappers; inner: {position: name}; returns (text, events)"""
        evs = []
        if f[0] == "lit":
            body = self.lit_text(f[1])
        elif f[0] == "fun":
            body = "f%d" % f[1]
            evs.append("u%d" % (100 + f[1]))
        else:
            parts = []
            for i, l in enumerate(f[1]):
                t = self.lit_text(l)
                if i in inner:
                    parts.append("(! %s :named n%d)" % (t, inner[i]))
                    evs.append("n%d=%d" % (inner[i], self.tid(t)))
                else:
                    parts.append(t)
            body = "(%s %s)" % (f[0], " ".join(parts))
        if outer is not None:
            evs.append("n%d=%d" % (outer, self.tid(self.plain(f))))
            body = "(! %s :named n%d)" % (body, outer)
        return body, evs

    def aterm(self, f, inner=None, outer=None, fail=None, boolean=True, extra_text=None):
        """abstract term encoding  <id>:<bool>:<evs>"""
        text, evs = self.annotated(f, inner or {}, outer)
        if fail:
            evs = list(evs)
        return text, "%d:%d:%s" % (self.tid(self.plain(f)), 1 if boolean else 0, ",".join(evs))

    # ---- live sets ----------------------------------------------------------------------------
    def live_names(self):
        s = set(self.glob_names)
        for sc in self.scopes:
            s |= sc["names"]
        return s

    def live_funs(self):
        d = dict(self.glob_funs)
        for sc in self.scopes:
            d.update(sc["funs"])
        return d

    def depth(self):
        return len(self.scopes) - 1

    def fresh_name(self, prefer_popped=0.5):
        live = self.live_names()
        popped = [n for n in self.popped_names if n not in live]
        if popped and self.rng.random() < prefer_popped:
            return self.rng.choice(popped)
        free = [n for n in range(self.NN) if n not in live]
        return self.rng.choice(free) if free else None

    def fresh_fun(self):
        live = self.live_funs()
        popped = [f for f in self.popped_funs if f not in live]
        if popped and self.rng.random() < 0.5:
            return self.rng.choice(popped)
        free = [f for f in range(self.NF) if f not in live]
        return self.rng.choice(free) if free else None

    def add_name(self, n, f=None, top=False):
        (self.glob_names if self.glob else self.scopes[-1]["names"]).add(n)
        if top:
            self.named_top[n] = f
            self.named_lvl[n] = self.depth()

    # ---- header -------------------------------------------------------------------------------
    def header(self):
        cs = []
        if self.mode == "core":
            cs += [Cmd("(set-option :produce-unsat-cores true)", "Oc1", "opt"),
                   Cmd("(set-option :produce-assignments true)", "Oa1", "opt"),
                   Cmd("(set-option :produce-models true)", "Om1", "opt")]
        else:
            cs += [Cmd("(set-option :produce-interpolants true)", "Oi1", "opt"),
                   Cmd("(set-option :produce-models true)", "Om1", "opt")]
        if self.glob:
            cs.append(Cmd("(set-option :global-declarations true)", "Og1", "opt"))
        cs.append(Cmd("(set-logic %s)" % self.logic, "L1", "set-logic"))
        self.inited = True
        k = 0
        if self.logic == "QF_UF":
            cs.append(Cmd("(declare-sort U 0)", "S1", "declare-sort"))
            cs.append(Cmd("(declare-fun g (U) U)", "F%d,1" % k, "declare-fun")); k += 1
        for b in self.bools:
            cs.append(Cmd("(declare-fun %s () Bool)" % b, "F%d,1" % k, "declare-fun")); k += 1
        for x in ("x0", "x1", "x2"):
            cs.append(Cmd("(declare-fun %s () %s)" % (x, self.sort), "F%d,1" % k, "declare-fun")); k += 1
        self.ndecl = k
        return cs

    # ---- valid commands -----------------------------------------------------------------------
    def c_assert(self, reuse=False, named=None, nested=False):
        rng = self.rng
        if reuse and self.asserted:
            f = rng.choice(self.asserted)
        else:
            f = self.rand_formula()
        inner, outer = {}, None
        used = set()
        if nested and f[0] in ("or", "and"):
            for i in range(len(f[1])):
                if rng.random() < 0.6:
                    n = self.fresh_name()
                    if n is not None and n not in used:
                        inner[i] = n
                        used.add(n)
        if named:
            n = self.fresh_name()
            if n is not None and n not in used:
                outer = n
        text, at = self.aterm(f, inner, outer)
        for n in inner.values():
            self.add_name(n)
        if outer is not None:
            self.add_name(outer, f, top=True)
        self.asserted.append(f)
        return Cmd("(assert %s)" % text, "A" + at, "assert", formula=self.plain(f), name=outer,
                   inner=[(n, self.lit_text(f[1][i])) for i, n in inner.items()])

    def c_define(self, k=None):
        k = self.fresh_fun() if k is None else k
        if k is None:
            return None
        l = self.rand_lit()
        body = ("lit", l)
        text, at = self.aterm(body)
        (self.glob_funs if self.glob else self.scopes[-1]["funs"])[k] = body
        return Cmd("(define-fun f%d () Bool %s)" % (k, text), "D%d|1|1|%s" % (100 + k, at), "define-fun", fun=k,
                   body=self.plain(body))

    def c_assert_fun(self, k=None):
        live = self.live_funs()
        if not live:
            return None
        k = self.rng.choice(sorted(live)) if k is None else k
        f = ("fun", k, live[k])
        outer = self.fresh_name() if self.rng.random() < 0.5 else None
        text, at = self.aterm(f, {}, outer)
        if outer is not None:
            self.add_name(outer, f, top=True)
        self.asserted.append(live[k])
        return Cmd("(assert %s)" % text, "A" + at, "assert-fun", formula=self.plain(f), name=outer, inner=[], fun=k)

    def c_push(self):
        k = 1 if self.rng.random() < 0.8 else 2
        for _ in range(k):
            self.scopes.append(dict(names=set(), funs={}))
        return Cmd("(push %d)" % k, "U%d" % k, "push")

    def c_pop(self):
        if self.depth() == 0:
            return None
        k = 1 if self.rng.random() < 0.75 else self.rng.randint(1, self.depth())
        for _ in range(k):
            sc = self.scopes.pop()
            self.popped_names |= sc["names"]
            self.popped_funs |= set(sc["funs"])
        for n in [n for n, l in self.named_lvl.items() if l > self.depth()]:
            self.named_top.pop(n, None)
            self.named_lvl.pop(n, None)
        return Cmd("(pop %d)" % k, "P%d" % k, "pop")

    def c_check(self):
        cs = [Cmd("(check-sat)", "C?", "check-sat")]
        rng = self.rng
        if self.mode == "core":
            if rng.random() < 0.8:
                cs.append(Cmd("(get-assignment)", "G", "get-assignment"))
            if rng.random() < 0.9:
                cs.append(Cmd("(get-unsat-core)", "K", "get-unsat-core"))
        else:
            tops = sorted(self.named_top)
            if len(tops) >= 2 and rng.random() < 0.9:
                cs.append(self.c_itp(tops))
        if rng.random() < 0.5:
            cs.append(Cmd("(get-model)", "M", "get-model"))
        if rng.random() < 0.4:
            ts = rng.sample(self.bools + ["x0", "x1", "x2"], 2)
            cs.append(Cmd("(get-value (%s))" % " ".join(ts), "V" + "/".join("%d:1:" % self.tid(t) for t in ts),
                          "get-value", terms=ts))
        return cs

    def c_itp(self, tops, bad=None):
        rng = self.rng
        tops = list(tops)
        rng.shuffle(tops)
        # groups of single names; a multi-name (and ..) group only over distinct non-`and` bodies
        k = rng.randint(2, min(3, len(tops)))
        groups = [[n] for n in tops[:k]]
        rest = tops[k:]
        if rest and rng.random() < 0.5:
            cand = rest[0]
            g0 = groups[0][0]
            f0, f1 = self.named_top[g0], self.named_top[cand]
            if f0[0] != "and" and f1[0] != "and" and f0[0] != "fun" and f1[0] != "fun" and self.plain(f0) != self.plain(f1) \
                    and self.plain(f0) != "(not %s)" % self.plain(f1) and self.plain(f1) != "(not %s)" % self.plain(f0):
                groups[0].append(cand)
        if bad is not None:
            groups[rng.randrange(len(groups) - 1)] = [bad] if isinstance(bad, int) else bad
        def gtext(g):
            ns = [("n%d" % n if isinstance(n, int) else n) for n in g]
            return ns[0] if len(ns) == 1 else "(and %s)" % " ".join(ns)
        text = "(get-interpolants %s)" % " ".join(gtext(g) for g in groups)
        ab = "I" + "/".join("+".join(str(n if isinstance(n, int) else 99) for n in g) for g in groups)
        return Cmd(text, ab, "get-interpolants", groups=groups)

    # ---- deliberately rejected references (C21) -------------------------------------------------
    def c_bad_reference(self):
        """a command that must be rejected because of a name/function that is live or popped"""
        rng = self.rng
        live, lf = self.live_names(), self.live_funs()
        popped_n = [n for n in self.popped_names if n not in live]
        popped_f = [f for f in self.popped_funs if f not in lf]
        opts = []
        if live:
            opts.append("dup-name")
        if lf:
            opts.append("dup-fun")
        if popped_f:
            opts.append("popped-fun")
        if self.mode == "itp" and popped_n and len(self.named_top) >= 2:
            opts.append("popped-name-itp")
        if not opts:
            return None
        o = rng.choice(opts)
        if o == "dup-name":
            n = rng.choice(sorted(live))
            f = self.rand_formula()
            text, at = self.aterm(f, {}, n)
            return Cmd("(assert %s)" % text, "A" + at, "ref:dup-name", expect="err", name=n)
        if o == "dup-fun":
            k = rng.choice(sorted(lf))
            body = ("lit", self.rand_lit())
            text, at = self.aterm(body)
            return Cmd("(define-fun f%d () Bool %s)" % (k, text), "D%d|1|1|%s" % (100 + k, at), "ref:dup-fun", expect="err", fun=k)
        if o == "popped-fun":
            k = rng.choice(popped_f)
            return Cmd("(assert f%d)" % k, "A%d:1:u%d" % (0, 100 + k), "ref:popped-fun", expect="err", fun=k)
        n = rng.choice(popped_n)
        c = self.c_itp(sorted(self.named_top), bad=n)
        c.kind = "ref:popped-name-itp"
        c.meta["expect"] = "err"
        return c

    # ---- rejected commands to inject (C19) ----------------------------------------------------
    INJECT_KINDS = ("ill-sorted", "unknown-symbol", "nonbool-assert", "dup-name", "named-then-fail", "redeclare-sort",
                    "bad-declare", "bad-define-sort", "bad-define-body", "bad-define-mismatch", "dup-define",
                    "bad-define-named", "pop-too-many", "push-negative", "pop-negative", "push-huge", "get-model-wrong",
                    "get-core-wrong", "get-itp-wrong", "set-logic-again", "set-option-late", "get-value-bad")

    def inject(self, kind, future_names=()):
        """a command of the given kind that the solver should reject in the generator's current state
        (returns None when the state offers no way to build one).  Generator bookkeeping is NOT updated:
        the script-without must stay valid."""
        rng = self.rng
        L = self.lit_text(self.rand_lit())
        nb = rng.choice(self.nonbool)
        def mk(text, ab):
            return Cmd(text, ab, "inject:" + kind, injected=True, inj=kind)
        if kind == "ill-sorted":
            return mk("(assert (or %s %s))" % (L, nb), "A0:1:x")
        if kind == "unknown-symbol":
            return mk("(assert (or %s zz))" % L, "A0:1:x")
        if kind == "nonbool-assert":
            return mk("(assert %s)" % nb, "A%d:0:" % self.tid(nb))
        if kind == "dup-name":
            live = sorted(self.live_names())
            if not live:
                return None
            outer = sorted(set(live) - set(self.scopes[-1]["names"])) if self.depth() > 0 else []
            n = rng.choice(outer) if outer and rng.random() < 0.7 else rng.choice(live)
            return mk("(assert (! %s :named n%d))" % (L, n), "A%d:1:n%d=%d" % (self.tid(L), n, self.tid(L)))
        if kind == "named-then-fail":
            cand = [n for n in future_names if n not in self.live_names()] or [self.fresh_name(0.0)]
            n = rng.choice(cand)
            if n is None:
                return None
            return mk("(assert (and (! %s :named n%d) zz))" % (L, n), "A0:1:n%d=%d,x" % (n, self.tid(L)))
        if kind == "redeclare-sort":
            return mk("(declare-sort %s 0)" % self.sort, "S1" if self.logic == "QF_UF" else "S0")
        if kind == "bad-declare":
            return mk("(declare-fun yy () Foo)", "F90,0")
        if kind in ("bad-define-sort", "bad-define-body", "bad-define-mismatch"):
            # a function name of the pool that is free now (the valid script may define it later)
            k = self.fresh_fun()
            if k is None:
                return None
            fid = 100 + k
            if kind == "bad-define-sort":
                return mk("(define-fun f%d ((a Foo)) Bool true)" % k, "D%d|0|1|0:1:" % fid)
            if kind == "bad-define-body":
                return mk("(define-fun f%d () Bool (or %s zz))" % (k, L), "D%d|1|1|0:1:x" % fid)
            return mk("(define-fun f%d () Bool %s)" % (k, nb), "D%d|1|0|%d:0:" % (fid, self.tid(nb)))
        if kind == "dup-define":
            lf = sorted(self.live_funs())
            if not lf:
                return None
            outer = sorted(set(lf) - set(self.scopes[-1]["funs"])) if self.depth() > 0 else []
            k = rng.choice(outer) if outer and rng.random() < 0.7 else rng.choice(lf)
            return mk("(define-fun f%d () Bool %s)" % (k, L), "D%d|1|1|%d:1:" % (100 + k, self.tid(L)))
        if kind == "bad-define-named":
            cand = [n for n in future_names if n not in self.live_names()] or [self.fresh_name(0.0)]
            n = rng.choice(cand)
            if n is None:
                return None
            return mk("(define-fun fz () Bool (and (! %s :named n%d) zz))" % (L, n), "D190|1|1|0:1:n%d=%d,x" % (n, self.tid(L)))
        if kind == "pop-too-many":
            k = self.depth() + rng.randint(1, 3)
            return mk("(pop %d)" % k, "P%d" % k)
        if kind == "push-negative":
            return mk("(push -1)", "U-1")
        if kind == "pop-negative":
            return mk("(pop -2)", "P-2")
        if kind == "push-huge":
            return mk("(push 99999999999)", "U99999999999")
        if kind == "get-model-wrong":
            return mk("(get-model)", "M")
        if kind == "get-core-wrong":
            return mk("(get-unsat-core)", "K")
        if kind == "get-itp-wrong":
            live = sorted(self.named_top)
            a = "n%d" % live[0] if live else "p0"
            return mk("(get-interpolants zz %s)" % a, "I99/%s" % (live[0] if live else 98))
        if kind == "set-logic-again":
            return mk("(set-logic QF_UF)", "L1")
        if kind == "set-option-late":
            return mk("(set-option :produce-interpolants true)", "Oi1")
        if kind == "get-value-bad":
            return mk("(get-value (zz))", "V0:1:x")
        raise ValueError(kind)

    # ---- whole scripts --------------------------------------------------------------------------
    def history(self, n, bad_refs=0.0):
        """header + n steps of a valid history (plus deliberately rejected references with prob. bad_refs)"""
        rng = self.rng
        cs = self.header()
        for _ in range(n):
            r = rng.random()
            c = None
            if rng.random() < bad_refs:
                c = self.c_bad_reference()
            if c is None:
                if r < 0.16:
                    c = self.c_assert()
                elif r < 0.34:
                    c = self.c_assert(named=True)
                elif r < 0.44:
                    c = self.c_assert(named=rng.random() < 0.5, nested=True)
                elif r < 0.52:
                    c = self.c_assert(reuse=True, named=rng.random() < 0.6)
                elif r < 0.60:
                    c = self.c_define()
                elif r < 0.66:
                    c = self.c_assert_fun()
                elif r < 0.74:
                    c = self.c_push()
                elif r < 0.87:
                    c = self.c_pop()
                else:
                    c = self.c_check()
            if c is None:
                continue
            cs += c if isinstance(c, list) else [c]
        cs += self.c_check()
        return cs


BEFORE_LOGIC = ("(assert true)", "(push 1)", "(check-sat)", "(declare-fun q0 () Bool)", "(pop 1)", "(get-model)",
                "(define-fun fz () Bool true)", "(get-assignment)")
BEFORE_LOGIC_ABS = ("A0:1:", "U1", "Ck", "F91,1", "P1", "M", "D190|1|1|0:1:", "G")


def history_with_injections(g, n, kinds, ninj):
    """a valid history of g with `ninj` rejected commands of the given kinds inserted at random positions
    (each built for the generator state at its position).  Commands carry .injected."""
    rng = g.rng
    cs = g.header()
    out = []
    # before set-logic
    if "before-set-logic" in kinds:
        k = next(i for i, c in enumerate(cs) if c.kind == "set-logic")
        j = rng.randrange(len(BEFORE_LOGIC))
        cs.insert(rng.randint(0, k), Cmd(BEFORE_LOGIC[j], BEFORE_LOGIC_ABS[j], "inject:before-set-logic", injected=True, inj="before-set-logic"))
    out += cs
    body_kinds = [k for k in kinds if k != "before-set-logic"]
    steps = []
    pos = sorted(rng.randrange(n + 1) for _ in range(ninj)) if body_kinds else []
    for i in range(n + 1):
        while pos and pos[0] == i:
            pos.pop(0)
            c = g.inject(rng.choice(body_kinds))
            if c is not None:
                out.append(c)
        if i == n:
            break
        r = rng.random()
        if r < 0.14:
            c = g.c_assert()
        elif r < 0.36:
            c = g.c_assert(named=True)
        elif r < 0.46:
            c = g.c_assert(named=rng.random() < 0.5, nested=True)
        elif r < 0.52:
            c = g.c_assert(reuse=True, named=rng.random() < 0.6)
        elif r < 0.58:
            c = g.c_define()
        elif r < 0.63:
            c = g.c_assert_fun()
        elif r < 0.72:
            c = g.c_push()
        elif r < 0.82:
            c = g.c_pop()
        else:
            c = g.c_check()
            if body_kinds and rng.random() < 0.25:
                # a rejected command between a check-sat and the queries of its result
                x = g.inject(rng.choice(body_kinds))
                if x is not None:
                    c.insert(rng.randint(1, len(c)), x)
        if c is None:
            continue
        out += c if isinstance(c, list) else [c]
    out += g.c_check()
    return out


def use_all(g):
    """commands that USE everything the scopes say is live (and re-introduce what they say is gone):
    every live function asserted, one live function re-defined (must be refused), popped functions and
    names introduced again (must be accepted), then a check-sat with the queries of the mode."""
    rng = g.rng
    out = []
    live = sorted(g.live_funs())
    for k in live:
        c = g.c_assert_fun(k)
        if c is not None:
            out.append(c)
    if live:
        k = rng.choice(live)
        body = ("lit", g.rand_lit())
        text, at = g.aterm(body)
        out.append(Cmd("(define-fun f%d () Bool %s)" % (k, text), "D%d|1|1|%s" % (100 + k, at), "ref:dup-fun", expect="err", fun=k))
    for k in [f for f in sorted(g.popped_funs) if f not in g.live_funs()][:2]:
        c = g.c_define(k)
        if c is not None:
            out.append(c)
            c2 = g.c_assert_fun(k)
            if c2 is not None:
                out.append(c2)
    for _ in range(2):
        out.append(g.c_assert(named=True))
    out += g.c_check()
    return out


def _valid_step(g, allow_scope=True):
    rng = g.rng
    r = rng.random()
    if r < 0.15:
        return g.c_assert()
    if r < 0.40:
        return g.c_assert(named=True)
    if r < 0.50:
        return g.c_assert(named=rng.random() < 0.5, nested=True)
    if r < 0.56:
        return g.c_assert(reuse=True, named=rng.random() < 0.6)
    if r < 0.80:
        return g.c_define()
    return g.c_assert_fun()


def history_nested(g, kinds, ninj):
    """definitions and names at level 0, one or two pushes with more of them, the rejected commands at the
    deepest level (some of them between a check-sat and its queries), pops back to level 0, then use_all()."""
    rng = g.rng
    out = g.header()
    body_kinds = [k for k in kinds if k != "before-set-logic"] or ["dup-define"]

    def add(c):
        if c is not None:
            out.extend(c if isinstance(c, list) else [c])
    add(g.c_define())
    for _ in range(rng.randint(2, 4)):
        add(_valid_step(g))
    if rng.random() < 0.4:
        add(g.c_check())
    for _ in range(rng.randint(1, 2)):
        add(g.c_push())
        for _ in range(rng.randint(1, 3)):
            add(_valid_step(g))
    left = ninj
    while left > 0:
        if rng.random() < 0.45:
            blk = g.c_check()
            c = g.inject(rng.choice(body_kinds))
            if c is not None:
                blk.insert(rng.randint(1, len(blk)), c)
            add(blk)
        else:
            add(g.inject(rng.choice(body_kinds)))
            if rng.random() < 0.5:
                add(_valid_step(g))
        left -= 1
    while g.depth() > 0:
        add(g.c_pop())
        if rng.random() < 0.3:
            add(_valid_step(g))
    add(use_all(g))
    return out


def render(cmds, echo=False):
    """SMT-LIB text, one command per line; with echo markers @@<i> after command i (binary runs)"""
    out = []
    for i, c in enumerate(cmds):
        out.append(c.text)
        if echo:
            out.append('(echo "@@%d")' % i)
    return "\n".join(out) + "\n"


def split_echo(stdout, n):
    """per-command output segments of a run of render(.., echo=True)"""
    segs, cur, k = [], [], 0
    for line in stdout.split("\n"):
        if line.startswith("@@"):
            segs.append("\n".join(cur))
            cur = []
            k += 1
        else:
            cur.append(line)
    tail = "\n".join(cur).strip()
    return segs, tail


def abstract_line(cmds, answers, NF):
    """driver input line; answers: list of check-sat answers in order ('sat'/'unsat'/'unknown')"""
    it = iter(answers)
    parts = []
    for c in cmds:
        a = c.abs
        if a == "C?":
            r = next(it, "unknown")
            a = "C" + {"sat": "s", "unsat": "n"}.get(r, "k")
        parts.append(a)
    return "B %d %s" % (NF, " ; ".join(parts))
