"""Generator of small SMT-LIB scripts with enough Boolean structure to force SAT-level conflicts
(C12 / C10). Every choice derives from the rng passed in.

gen_script(rng, logic=None, incremental=None, size=1) -> dict(logic, body, family, incremental, nchecks)
   body = text from (set-logic ...) on; option lines are prepended by the caller (see CONFIGS).

Logics: QF_UF, QF_LRA, QF_LIA, QF_IDL, QF_RDL.  Families:
   rand3   random 2/3-clauses over Boolean variables and theory atoms near the satisfiability threshold
   hard3   random 3-clauses over 20-80 fresh Boolean variables at ratio 4.1-4.9 (tens to hundreds of conflicts)
   struct  nested and/or/xor/ite/=/=> formulas (Tseitin variables, ite)
   php     pigeon-hole (holes+1 pigeons) over Booleans, optionally linked to theory atoms
   sched   disjunctive difference / ordering constraints (many theory conflicts)    [arith logics]
   diamond equality diamonds with uninterpreted functions (many EUF conflicts)       [QF_UF]
   deep    (gen_deep_history) 2-4 OPEN push levels at an unsat check-sat, level-0 facts (units, facts found only by
           search, top-level equalities) used by clauses / theory atoms of the deeper levels, popped and reopened levels
Histories: assert / push / pop / check-sat sequences with named assertions; the non-incremental variant has
exactly one check-sat and no push/pop (SatELite runs only then).
"""

LOGICS = ["QF_UF", "QF_LRA", "QF_LIA", "QF_IDL", "QF_RDL"]


class G:
    def __init__(self, rng, logic, size, ite=True):
        self.r = rng
        self.ite = ite
        self.logic = logic
        self.size = size
        self.decls = []
        self.nb = rng.randint(4, 6 + 4 * size)
        self.bools = ["p%d" % i for i in range(self.nb)]
        for b in self.bools:
            self.decls.append("(declare-fun %s () Bool)" % b)
        self.arith = logic in ("QF_LRA", "QF_LIA", "QF_IDL", "QF_RDL")
        self.int = logic in ("QF_LIA", "QF_IDL")
        self.diff = logic in ("QF_IDL", "QF_RDL")
        if self.arith:
            self.nx = rng.randint(2, 4)
            self.xs = ["x%d" % i for i in range(self.nx)]
            for x in self.xs:
                self.decls.append("(declare-fun %s () %s)" % (x, "Int" if self.int else "Real"))
        else:
            self.decls.append("(declare-sort U 0)")
            self.na = rng.randint(3, 5)
            self.cs = ["a%d" % i for i in range(self.na)]
            for c in self.cs:
                self.decls.append("(declare-fun %s () U)" % c)
            self.decls.append("(declare-fun f (U) U)")
            self.decls.append("(declare-fun g (U U) U)")
            self.decls.append("(declare-fun P (U) Bool)")
        self.atom_pool = [self.theory_atom() for _ in range(rng.randint(3, 5 + 3 * size))]

    # -- numbers -------------------------------------------------------------------------------
    def num(self, lo=-4, hi=6):
        r = self.r
        if self.int or r.random() < 0.7:
            n = r.randint(lo, hi)
            s = str(abs(n)) if self.int else "%d.0" % abs(n) if r.random() < 0.3 else str(abs(n))
            return "(- %s)" % s if n < 0 else s
        d = r.choice([2, 3, 4])
        n = r.randint(1, 7)
        s = "(/ %d %d)" % (n, d)
        return "(- %s)" % s if r.random() < 0.4 else s

    # -- atoms ---------------------------------------------------------------------------------
    def uterm(self, depth=0):
        r = self.r
        if depth >= 2 or r.random() < 0.55:
            return r.choice(self.cs)
        if r.random() < 0.7:
            return "(f %s)" % self.uterm(depth + 1)
        return "(g %s %s)" % (self.uterm(depth + 1), self.uterm(depth + 1))

    def theory_atom(self):
        r = self.r
        if not self.arith:
            k = r.random()
            if k < 0.7:
                return "(= %s %s)" % (self.uterm(), self.uterm())
            if k < 0.9:
                return "(P %s)" % self.uterm()
            a, b = r.sample(self.cs, 2)
            return "(distinct %s %s)" % (a, b)
        op = r.choice(["<=", "<", ">=", ">", "<=", ">="] + (["="] if r.random() < 0.3 else []))
        if self.diff:
            x, y = r.sample(self.xs, 2)
            if r.random() < 0.75:
                return "(%s (- %s %s) %s)" % (op, x, y, self.num(-3, 4))
            return "(%s %s %s)" % (op, x, y)
        x = r.choice(self.xs)
        k = r.random()
        if k < 0.3:
            lhs = x
        elif k < 0.75:
            y = r.choice(self.xs)
            lhs = "(%s %s %s)" % (r.choice(["+", "-"]), x, y)
        else:
            y = r.choice(self.xs)
            lhs = "(+ (* %d %s) %s)" % (r.randint(2, 3), x, y)
        return "(%s %s %s)" % (op, lhs, self.num())

    def atom(self):
        r = self.r
        if r.random() < 0.55:
            return r.choice(self.bools)
        if r.random() < 0.8:
            return r.choice(self.atom_pool)
        return self.theory_atom()

    def lit(self):
        a = self.atom()
        return a if self.r.random() < 0.5 else "(not %s)" % a

    # -- formulas ------------------------------------------------------------------------------
    def formula(self, depth):
        r = self.r
        if depth <= 0 or r.random() < 0.25:
            return self.lit()
        k = r.random()
        if k < 0.25:
            return "(and %s)" % " ".join(self.formula(depth - 1) for _ in range(r.randint(2, 3)))
        if k < 0.55:
            return "(or %s)" % " ".join(self.formula(depth - 1) for _ in range(r.randint(2, 3)))
        if k < 0.65:
            return "(xor %s %s)" % (self.formula(depth - 1), self.formula(depth - 1))
        if k < 0.75:
            return "(= %s %s)" % (self.formula(depth - 1), self.formula(depth - 1))
        if k < 0.85:
            return "(=> %s %s)" % (self.formula(depth - 1), self.formula(depth - 1))
        if k < 0.93 and self.ite:
            return "(ite %s %s %s)" % (self.formula(depth - 1), self.formula(depth - 1), self.formula(depth - 1))
        return "(not %s)" % self.formula(depth - 1)

    def clause(self, k=None):
        r = self.r
        k = k or r.choice([2, 3, 3, 3])
        seen, lits = set(), []
        tries = 0
        while len(lits) < k and tries < 20:
            tries += 1
            a = self.atom()
            if a in seen:
                continue
            seen.add(a)
            lits.append(a if r.random() < 0.5 else "(not %s)" % a)
        return lits[0] if len(lits) == 1 else "(or %s)" % " ".join(lits)

    # -- families: each returns a list of formulas to assert ------------------------------------
    def fam_rand3(self):
        n = self.nb + len(self.atom_pool) // 2
        m = int(n * self.r.uniform(3.2, 5.0))
        return [self.clause() for _ in range(m)]

    def fam_hard3(self):
        """3-clauses over fresh Boolean variables near the threshold (many conflicts), some theory atoms mixed in"""
        r = self.r
        n = r.randint(20, 40 + 20 * self.size)
        qs = ["q%d" % i for i in range(n)]
        for q in qs:
            self.decls.append("(declare-fun %s () Bool)" % q)
        pool = qs + [r.choice(self.atom_pool) for _ in range(r.randint(0, 4))]
        m = int(n * r.uniform(4.1, 4.9))
        fs = []
        for _ in range(m):
            vs = r.sample(pool, 3)
            fs.append("(or %s)" % " ".join(v if r.random() < 0.5 else "(not %s)" % v for v in vs))
        return fs

    def fam_struct(self):
        return [self.formula(self.r.randint(2, 3)) for _ in range(self.r.randint(4, 6 + 3 * self.size))]

    def fam_php(self):
        r = self.r
        holes = r.randint(2, 4 if self.size < 2 else 5)
        pig = holes + 1
        v = [["h_%d_%d" % (i, j) for j in range(holes)] for i in range(pig)]
        for row in v:
            for b in row:
                self.decls.append("(declare-fun %s () Bool)" % b)
        fs = []
        for i in range(pig):
            fs.append("(or %s)" % " ".join(v[i]))
        for j in range(holes):
            for i in range(pig):
                for k in range(i + 1, pig):
                    fs.append("(or (not %s) (not %s))" % (v[i][j], v[k][j]))
        # link some of the pigeon variables to theory atoms so that the theory takes part
        for _ in range(r.randint(0, 3)):
            fs.append("(= %s %s)" % (v[r.randrange(pig)][r.randrange(holes)], r.choice(self.atom_pool)))
        if r.random() < 0.4 and len(fs) > 3:       # make some instances satisfiable
            del fs[r.randrange(pig)]
        r.shuffle(fs)
        return fs

    def fam_sched(self):
        r = self.r
        xs = self.xs
        fs = []
        jobs = list(xs)
        dur = {x: r.randint(1, 3) for x in jobs}
        for i in range(len(jobs)):
            for j in range(i + 1, len(jobs)):
                a, b = jobs[i], jobs[j]
                fs.append("(or (<= (- %s %s) %s) (<= (- %s %s) %s))" % (a, b, self.neg(dur[a]), b, a, self.neg(dur[b])))
        span = sum(dur.values()) - r.randint(0, 2)
        for a in jobs:
            for b in jobs:
                if a != b and r.random() < 0.6:
                    fs.append("(<= (- %s %s) %d)" % (a, b, max(span - dur[a], 0)))
        for _ in range(r.randint(1, 4)):
            fs.append(self.clause())
        r.shuffle(fs)
        return fs

    def neg(self, n):
        return "(- %d)" % n if n > 0 else "0"

    def fam_diamond(self):
        r = self.r
        n = r.randint(2, 4)
        names = []
        for i in range(n + 1):
            for s in ("u", "v", "w"):
                nm = "%s%d" % (s, i)
                names.append(nm)
                self.decls.append("(declare-fun %s () U)" % nm)
        fs = []
        for i in range(n):
            fs.append("(or (and (= u%d v%d) (= v%d u%d)) (and (= u%d w%d) (= w%d u%d)))" % (i, i, i, i + 1, i, i, i, i + 1))
        k = r.random()
        if k < 0.6:
            fs.append("(not (= (f u0) (f u%d)))" % n)
        elif k < 0.8:
            fs.append("(not (= u0 u%d))" % n)
        else:
            fs.append("(or (not (= (f u0) (f u%d))) %s)" % (n, self.lit()))
        for _ in range(r.randint(0, 3)):
            fs.append(self.clause())
        r.shuffle(fs)
        return fs


def gen_script(rng, logic=None, incremental=None, size=1, family=None, ite=True):
    logic = logic or rng.choice(LOGICS)
    g = G(rng, logic, size, ite)
    fams = ["rand3", "hard3", "hard3", "struct", "php"]
    if g.arith:
        fams += ["sched"] if g.diff or rng.random() < 0.5 else ["struct"]
    else:
        fams += ["diamond"]
    family = family or rng.choice(fams)
    if family == "sched" and not g.arith:
        family = "rand3"
    if family == "diamond" and g.arith:
        family = "rand3"
    fs = getattr(g, "fam_" + family)()
    if incremental is None:
        incremental = rng.random() < 0.7
    cmds = []
    nname = [0]

    def assert_(f):
        if rng.random() < 0.2:
            nname[0] += 1
            return "(assert (! %s :named n%d))" % (f, nname[0])
        return "(assert %s)" % f
    nchecks = 0
    if not incremental:
        cmds += [assert_(f) for f in fs]
        cmds.append("(check-sat)")
        nchecks = 1
    else:
        # base part, then a few push/pop episodes with extra (often contradictory) constraints
        k = max(1, int(len(fs) * rng.uniform(0.5, 0.9)))
        base, rest = fs[:k], fs[k:]
        cmds += [assert_(f) for f in base]
        if rng.random() < 0.5:
            cmds.append("(check-sat)")
            nchecks += 1
        depth = 0
        episodes = rng.randint(1, 3)
        for e in range(episodes):
            npush = 1 if rng.random() < 0.8 else 2
            cmds.append("(push %d)" % npush)
            depth += npush
            extra = rest[:] if e == 0 else []
            for _ in range(rng.randint(1, 4)):
                kk = rng.random()
                if kk < 0.4:
                    extra.append(g.clause(rng.choice([1, 2, 2])))
                elif kk < 0.7:
                    extra.append(g.formula(2))
                else:
                    extra.append(g.clause())
            if rng.random() < 0.35:
                # force unsatisfiability inside the frame
                a = g.atom()
                b = g.atom()
                extra += ["(or %s %s)" % (a, b), "(or (not %s) %s)" % (a, b), "(not %s)" % b]
            rng.shuffle(extra)
            cmds += [assert_(f) for f in extra]
            cmds.append("(check-sat)")
            nchecks += 1
            if rng.random() < 0.3:
                cmds.append("(push 1)")
                depth += 1
                cmds += [assert_(g.clause()) for _ in range(rng.randint(1, 3))]
                cmds.append("(check-sat)")
                nchecks += 1
            npop = rng.randint(1, depth) if rng.random() < 0.85 else 0
            if npop:
                cmds.append("(pop %d)" % npop)
                depth -= npop
                if rng.random() < 0.6:
                    cmds += [assert_(g.clause()) for _ in range(rng.randint(0, 2))]
                    cmds.append("(check-sat)")
                    nchecks += 1
    body = "\n".join(["(set-logic %s)" % logic] + g.decls + cmds) + "\n"
    return dict(logic=logic, body=body, family=family, incremental=incremental, nchecks=nchecks)


def gen_deep_history(rng, logic=None, size=1):
    """Histories with SEVERAL open push levels at the time of an unsat check-sat (final conflicts found over two or
    more activation assumptions), built on level-0 facts that deeper levels depend on:
      * Boolean facts that hold at level 0 only after search / propagation ((or a b)(or a (not b)), units, short
        implication chains), used negatively by clauses asserted at deeper levels;
      * top-level theory facts (equalities in QF_UF, equalities / bounds in the arithmetic logics) continued by
        theory atoms of deeper levels ((= x y) | push (= y z) | push (not (= x z)));
      * levels that are popped and reopened with a different continuation, check-sat before and after.
    Returns the same dict as gen_script (family 'deep')."""
    logic = logic or rng.choice(LOGICS)
    g = G(rng, logic, size, ite=False)
    r = rng
    cmds = []
    nname = [0]

    def assert_(f):
        if r.random() < 0.15:
            nname[0] += 1
            return "(assert (! %s :named n%d))" % (f, nname[0])
        return "(assert %s)" % f

    # ---- level 0 facts ---------------------------------------------------------------------
    nfacts = r.randint(1, 3)
    facts = []                     # literals (text) true at level 0
    fresh = ["d%d" % i for i in range(12)]
    for b in fresh:
        g.decls.append("(declare-fun %s () Bool)" % b)
    fi = iter(fresh)
    base = []
    for _ in range(nfacts):
        a = next(fi)
        k = r.random()
        if k < 0.45:
            b = next(fi)           # a follows only by search / by a learnt unit
            base += ["(or %s %s)" % (a, b), "(or %s (not %s))" % (a, b)]
        elif k < 0.7:
            base.append(a)         # plain unit
        else:
            b = next(fi)           # implied through another unit
            base += [b, "(or (not %s) %s)" % (b, a)]
        facts.append(a)
    # theory chain terms
    if g.arith:
        ts = list(g.xs)
        while len(ts) < 4:
            nm = "y%d" % len(ts)
            g.decls.append("(declare-fun %s () %s)" % (nm, "Int" if g.int else "Real"))
            ts.append(nm)
    else:
        ts = list(g.cs)
        while len(ts) < 4:
            nm = "b%d" % len(ts)
            g.decls.append("(declare-fun %s () U)" % nm)
            ts.append(nm)
    r.shuffle(ts)

    def eq(x, y):
        if g.arith and r.random() < 0.4:
            return "(and (<= %s %s) (>= %s %s))" % (x, y, x, y) if not g.diff else "(and (<= (- %s %s) 0) (<= (- %s %s) 0))" % (x, y, y, x)
        return "(= %s %s)" % (x, y)

    def neq(x, y):
        if g.arith:
            return r.choice(["(not (= %s %s))" % (x, y), "(< %s %s)" % (x, y), "(> %s %s)" % (x, y)]) if not g.diff else \
                r.choice(["(not (= %s %s))" % (x, y), "(< (- %s %s) 0)" % (x, y)])
        if r.random() < 0.3:
            return "(not (= (f %s) (f %s)))" % (x, y)
        return "(not (= %s %s))" % (x, y)
    use_theory = r.random() < 0.7
    if use_theory:
        base.append(eq(ts[0], ts[1]))
    for _ in range(r.randint(0, 3)):
        base.append(g.clause())
    r.shuffle(base)
    cmds += [assert_(f) for f in base]
    if r.random() < 0.4:
        cmds.append("(check-sat)")
    nchecks = 0

    # ---- episodes with 2..4 open levels ----------------------------------------------------
    def episode():
        """list of per-level assertion lists; the conjunction of all of them with level 0 is (usually) unsat"""
        depth = r.randint(2, 4)
        levels = [[] for _ in range(depth)]
        kind = r.random()
        cvars = []
        if kind < 0.55 or not use_theory:
            # Boolean chain from a level-0 fact: (or (not a) c1) | (or (not c1) c2) | ... | (not ck)
            a = r.choice(facts)
            prev = a
            for lv in range(depth - 1):
                c = next(fi, None) or r.choice(g.bools)
                extra = [] if r.random() < 0.6 else [r.choice(g.bools) if r.random() < 0.5 else "(not %s)" % r.choice(facts)]
                levels[lv].append("(or %s)" % " ".join(["(not %s)" % prev, c] + extra))
                for e in extra:
                    if not e.startswith("(not"):
                        levels[lv].append("(not %s)" % e)
                prev = c
            levels[depth - 1].append("(not %s)" % prev)
        else:
            # theory chain continuing the level-0 equality: (= t1 t2) | ... | (not (= t0 tk)), optionally gated by a fact
            chain = ts[1:1 + depth]
            for lv in range(depth - 1):
                x, y = chain[lv], chain[lv + 1] if lv + 1 < len(chain) else chain[lv]
                if x == y:
                    levels[lv].append(g.clause())
                    continue
                e = eq(x, y)
                if r.random() < 0.35:
                    e = "(or (not %s) %s)" % (r.choice(facts), e)
                levels[lv].append(e)
            last = chain[min(depth - 1, len(chain) - 1)]
            levels[depth - 1].append(neq(ts[0], last))
        for lv in range(depth):
            for _ in range(r.randint(0, 2)):
                levels[lv].append(g.clause())
            r.shuffle(levels[lv])
        return levels

    open_levels = 0
    for e in range(r.randint(1, 3)):
        levels = episode()
        for lv, fs in enumerate(levels):
            cmds.append("(push 1)")
            open_levels += 1
            cmds += [assert_(f) for f in fs]
            if lv < len(levels) - 1 and r.random() < 0.25:
                cmds.append("(check-sat)")
                nchecks += 1
        cmds.append("(check-sat)")
        nchecks += 1
        # pop some levels, maybe reopen with another final contradiction
        npop = r.randint(1, open_levels)
        cmds.append("(pop %d)" % npop)
        open_levels -= npop
        if r.random() < 0.6:
            cmds.append("(check-sat)")
            nchecks += 1
        if r.random() < 0.5:
            cmds.append("(push 1)")
            open_levels += 1
            cmds.append(assert_("(not %s)" % r.choice(facts)) if r.random() < 0.5 else assert_(g.clause()))
            cmds.append("(check-sat)")
            nchecks += 1
    body = "\n".join(["(set-logic %s)" % logic] + g.decls + cmds) + "\n"
    return dict(logic=logic, body=body, family="deep", incremental=True, nchecks=nchecks)


# option vectors: (name, option lines, needs a non-incremental script?)
CONFIGS = {
    "default": ([], False),
    "satelite": (["(set-option :incremental false)"], True),
    "satelite-noasymm-grow": (["(set-option :incremental false)", "(set-option :grow 8)"], True),
    "satelite-asymm": (["(set-option :incremental false)", "(set-option :asymm true)"], True),
    "lookahead": (["(set-option :pure-lookahead true)"], False),
    "picky": (["(set-option :picky true)"], False),
    "ghost": (["(set-option :ghost-vars true)"], False),
    "proofs": (["(set-option :produce-proofs true)"], False),
    "seed": (["(set-option :random-seed %(seed)d)"], False),
    "restarts": (["(set-option :restart-first 2)", "(set-option :luby-restart false)"], False),
    "rndpol": (["(set-option :rnd-pol true)", "(set-option :random-seed %(seed)d)"], False),
}


def with_config(script, cfg, rng_seed=7):
    opts, _ = CONFIGS[cfg]
    pre = "".join(o % dict(seed=rng_seed) + "\n" for o in opts)
    return pre + script["body"]
