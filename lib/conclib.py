"""Shared by checks/C24.py and checks/C25.py: SMT-LIB instance generators (big-coefficient arithmetic,
UF, pigeon-hole-like medium instances), the ThreadSanitizer builds and the parsing of TSan reports.
Everything random derives from the rng passed in."""
import hashlib
import os
import re

import vlib

# ------------------------------------------------------------------------------------------------
# instances
# ------------------------------------------------------------------------------------------------


def _num(v, real):
    s = str(abs(v)) + (".0" if real else "")
    return "(- %s)" % s if v < 0 else s


def _big(rng):
    """a coefficient that does not fit 32 bits (forces FastRational's GMP path)"""
    e = rng.choice([33, 40, 53, 63, 64, 70, 90])
    v = rng.getrandbits(e) | (1 << (e - 1))
    return v if rng.random() < 0.5 else -v


def _lin(rng, xs, real, big=True):
    ts = []
    for x in rng.sample(xs, rng.randint(1, min(3, len(xs)))):
        c = _big(rng) if big and rng.random() < 0.8 else rng.randint(-9, 9) or 1
        if real and rng.random() < 0.3:
            d = rng.getrandbits(rng.choice([20, 40, 70])) + 2
            ts.append("(* (/ %s %s) %s)" % (_num(c, True), _num(d, True), x))
        else:
            ts.append("(* %s %s)" % (_num(c, real), x))
    return ts[0] if len(ts) == 1 else "(+ %s)" % " ".join(ts)


def arith_big(rng, logic):
    """Random linear problem with coefficients beyond 2^32 and some Boolean structure."""
    real = logic == "QF_LRA"
    n = rng.randint(2, 5) if real else rng.randint(2, 3)
    xs = ["x%d" % i for i in range(n)]
    out = ["(set-logic %s)" % logic] + ["(declare-fun %s () %s)" % (x, "Real" if real else "Int") for x in xs]
    if not real:                                  # a box keeps branch-and-bound finite
        b = rng.choice([10, 1000, 2 ** 34, 2 ** 66])
        out += ["(assert (and (<= %s %s) (<= %s %s)))" % (_num(-b, False), x, x, _num(b, False)) for x in xs]
    atoms = []
    for _ in range(rng.randint(3, 9)):
        rhs = _big(rng) * rng.choice([1, 1, 2 ** 20])
        atoms.append("(%s %s %s)" % (rng.choice(["<=", ">=", "<", ">", "="] if real else ["<=", ">=", "<", ">"]), _lin(rng, xs, real), _num(rhs, real)))
    for a in atoms[:rng.randint(1, len(atoms))]:
        out.append("(assert %s)" % a)
    for _ in range(rng.randint(1, 4)):
        k = rng.sample(atoms, min(len(atoms), rng.randint(2, 3)))
        out.append("(assert (or %s))" % " ".join(a if rng.random() < 0.7 else "(not %s)" % a for a in k))
    return "\n".join(out) + "\n"


def uf_random(rng):
    n = rng.randint(3, 6)
    cs = ["c%d" % i for i in range(n)]
    out = ["(set-logic QF_UF)", "(declare-sort U 0)", "(declare-fun f (U) U)", "(declare-fun g (U U) U)"]
    out += ["(declare-fun %s () U)" % c for c in cs]

    def term(d):
        if d == 0 or rng.random() < 0.3:
            return rng.choice(cs)
        return "(f %s)" % term(d - 1) if rng.random() < 0.5 else "(g %s %s)" % (term(d - 1), term(d - 1))
    atoms = ["(= %s %s)" % (term(2), term(2)) for _ in range(rng.randint(4, 10))]
    for a in atoms[:rng.randint(1, 4)]:
        out.append("(assert %s)" % (a if rng.random() < 0.6 else "(not %s)" % a))
    for _ in range(rng.randint(2, 6)):
        k = rng.sample(atoms, min(len(atoms), rng.randint(2, 3)))
        out.append("(assert (or %s))" % " ".join(a if rng.random() < 0.5 else "(not %s)" % a for a in k))
    return "\n".join(out) + "\n"


def pigeon(logic, pigeons, holes, rng=None, big=False):
    """pigeons into holes, all different.  unsat iff pigeons > holes.
    QF_UF: Boolean encoding p_i_j;  QF_LRA/QF_LIA: x_i in {1..holes} (scaled by a big factor if big)."""
    out = ["(set-logic %s)" % logic]
    if logic == "QF_UF":
        for i in range(pigeons):
            for j in range(holes):
                out.append("(declare-fun p_%d_%d () Bool)" % (i, j))
        for i in range(pigeons):
            out.append("(assert (or %s))" % " ".join("p_%d_%d" % (i, j) for j in range(holes)))
        for j in range(holes):
            for i in range(pigeons):
                for k in range(i + 1, pigeons):
                    out.append("(assert (or (not p_%d_%d) (not p_%d_%d)))" % (i, j, k, j))
    else:
        real = logic == "QF_LRA"
        sc = (2 ** 40 + 7) if big else 1
        for i in range(pigeons):
            out.append("(declare-fun x%d () %s)" % (i, "Real" if real else "Int"))
        for i in range(pigeons):
            out.append("(assert (or %s))" % " ".join("(= x%d %s)" % (i, _num(sc * (j + 1), real)) for j in range(holes)))
        for i in range(pigeons):
            for k in range(i + 1, pigeons):
                out.append("(assert (or (< x%d x%d) (> x%d x%d)))" % (i, k, i, k))
    order = out[1:]
    if rng is not None:                              # shuffling the assertions varies the search
        decls = [l for l in order if l.startswith("(declare")]
        asserts = [l for l in order if l.startswith("(assert")]
        rng.shuffle(asserts)
        order = decls + asserts
    return "\n".join([out[0]] + order) + "\n"


def lia_cuts(rng):
    """small-coefficient QF_LIA problems whose relaxation is rational (parity constraints): the LIA
    solver reaches its cut heuristics (LASolver::shouldTryCutFromProof).  Note that even these touch
    FastRational::pool: the constructor from text takes a pool cell for every parsed numeral."""
    n = rng.randint(2, 4)
    xs = ["x%d" % i for i in range(n)]
    out = ["(set-logic QF_LIA)"] + ["(declare-fun %s () Int)" % x for x in xs]
    out += ["(assert (and (<= (- 50) %s) (<= %s 50)))" % (x, x) for x in xs]
    for _ in range(rng.randint(1, 3)):
        k = rng.choice([2, 3, 4, 6])
        cs = [k * rng.randint(1, 5) * rng.choice([1, -1]) for _ in xs]
        rhs = k * rng.randint(-5, 5) + rng.randint(0, k - 1)
        out.append("(assert (%s (+ %s) %s))" % (rng.choice(["=", "<=", ">="]), " ".join("(* %s %s)" % (_num(c, False), x) for c, x in zip(cs, xs)),
                                               _num(rhs, False)))
    for _ in range(rng.randint(1, 3)):
        a, b = rng.sample(xs, 2)
        out.append("(assert (or (< (* 2 %s) (+ (* 3 %s) 1)) (> (* 5 %s) (+ (* 2 %s) 3))))" % (a, b, a, b))
    return "\n".join(out) + "\n"


def sat3(rng, n, ratio=4.1):
    out = ["(set-logic QF_UF)"] + ["(declare-fun v%d () Bool)" % i for i in range(n)]
    for _ in range(int(n * ratio)):
        vs = rng.sample(range(n), 3)
        out.append("(assert (or %s))" % " ".join(("v%d" % v if rng.random() < 0.5 else "(not v%d)" % v) for v in vs))
    return "\n".join(out) + "\n"


def lia_bb(rng):
    """boxed integer variables, a few two-sided rows  L <= sum c_j x_j <= L + w  with |c_j| ~ 2^40: the relaxation is
    rational almost everywhere, branch-and-bound needs many rounds, so the cuts-from-proofs code (every 10th round)
    and its big-number matrix arithmetic run"""
    n, rows = rng.randint(4, 6), rng.randint(3, 4)
    xs = ["x%d" % i for i in range(n)]
    out = ["(set-logic QF_LIA)"] + ["(declare-fun %s () Int)" % x for x in xs]
    out += ["(assert (and (<= (- 40) %s) (<= %s 40)))" % (x, x) for x in xs]
    for _ in range(rows):
        cs = [(rng.getrandbits(40) | (1 << 40)) * rng.choice([1, -1]) for _ in xs]
        lo = (rng.getrandbits(40) | (1 << 40)) * rng.choice([1, -1])
        w = (1 << 38) + rng.getrandbits(38)
        s = "(+ %s)" % " ".join("(* %s %s)" % (_num(c, False), x) for c, x in zip(cs, xs))
        out.append("(assert (and (>= %s %s) (<= %s %s)))" % (s, _num(lo, False), s, _num(lo + w, False)))
    return "\n".join(out) + "\n"


def subst_const(rng, logic):
    """top-level equalities  x = <big constant>  (the arithmetic substitution pass rewrites the other
    constraints with them) next to ordinary big-coefficient constraints"""
    real = logic == "QF_LRA"
    n = rng.randint(4, 6)
    xs = ["x%d" % i for i in range(n)]
    out = ["(set-logic %s)" % logic] + ["(declare-fun %s () %s)" % (x, "Real" if real else "Int") for x in xs]
    fixed = rng.sample(xs, rng.randint(2, 3))
    val = {}
    for x in fixed:
        val[x] = _big(rng)
        out.append("(assert (= %s %s))" % (x, _num(val[x], real)))
    if not real:
        out += ["(assert (and (<= %s %s) (<= %s %s)))" % (_num(-2 ** 70, False), x, x, _num(2 ** 70, False)) for x in xs if x not in fixed]
    for _ in range(rng.randint(3, 6)):
        ts = rng.sample(xs, rng.randint(2, min(4, n)))
        if not any(x in fixed for x in ts):
            ts[0] = rng.choice(fixed)
        s = "(+ %s)" % " ".join("(* %s %s)" % (_num(_big(rng) if rng.random() < 0.7 else rng.randint(1, 9), real), x) for x in ts)
        out.append("(assert (%s %s %s))" % (rng.choice(["<=", ">="]), s, _num(_big(rng) * rng.choice([1, 2 ** 30]), real)))
    a, b = rng.sample(xs, 2)
    out.append("(assert (or (< %s %s) (> %s (+ %s %s))))" % (a, b, a, b, _num(abs(_big(rng)), real)))
    return "\n".join(out) + "\n"


def xor_chain(rng, n, sat):
    """x1 xor x2 xor ... xor xn = parity, as a chain of fresh Booleans t_i = t_{i-1} xor x_i (CNF), plus units
    fixing every x_i; unsatisfiable when the forced parity is the wrong one.  Every t_i is a variable the
    SatELite-style preprocessor likes to eliminate."""
    out = ["(set-logic QF_UF)"] + ["(declare-fun x%d () Bool)" % i for i in range(n)] + ["(declare-fun t%d () Bool)" % i for i in range(n)]
    vals = [rng.random() < 0.5 for _ in range(n)]
    out.append("(assert (= t0 x0))")
    for i in range(1, n):
        a, b, c = "t%d" % (i - 1), "x%d" % i, "t%d" % i
        for cl in ("(or (not %s) (not %s) (not %s))" % (a, b, c), "(or %s %s (not %s))" % (a, b, c),
                   "(or %s (not %s) %s)" % (a, b, c), "(or (not %s) %s %s)" % (a, b, c)):
            out.append("(assert %s)" % cl)
    free = set(rng.sample(range(n), min(2, n)))        # two inputs stay open: search is needed
    for i in range(n):
        if i not in free:
            out.append("(assert %s)" % ("x%d" % i if vals[i] else "(not x%d)" % i))
    par = sum(vals) % 2 == 1
    if sat:
        out.append("(assert (or t%d (not t%d)))" % (n - 1, n - 1))
    else:                                              # force both parities through the two open inputs
        a, b = sorted(free) if len(free) == 2 else (0, 0)
        out.append("(assert (= x%d x%d))" % (a, b))
        fixed_par = sum(vals[i] for i in range(n) if i not in free) % 2 == 1
        out.append("(assert %s)" % ("(not t%d)" % (n - 1) if fixed_par else "t%d" % (n - 1)))
    return "\n".join(out) + "\n"


def with_options(text, opts):
    """prefix `(set-option k v)` lines (they must precede set-logic)"""
    return "".join("(set-option %s %s)\n" % kv for kv in opts) + text


def trivial(rng):
    k = rng.randint(0, 3)
    if k == 0:
        return "(set-logic QF_UF)\n(declare-fun a () Bool)\n(assert a)\n"
    if k == 1:
        return "(set-logic QF_UF)\n(declare-fun a () Bool)\n(assert (and a (not a)))\n"
    if k == 2:
        return "(set-logic QF_LRA)\n(declare-fun x () Real)\n(assert (> x 1.0))\n(assert (< x 2.0))\n"
    return "(set-logic QF_LIA)\n(declare-fun x () Int)\n(assert (> x 1))\n(assert (< x 2))\n"


def oracle(text, timeout=20):
    """z3 (untrusted) answer: 'sat' | 'unsat' | 'unknown'"""
    rc, out = vlib.run_ref("z3", text + "(check-sat)\n", timeout=timeout)
    for l in out.split("\n"):
        l = l.strip()
        if l in ("sat", "unsat", "unknown"):
            return l
    return "unknown"


def write_instances(pid, texts):
    d = os.path.join(vlib.BUILD, "tmp", "inst_%s_%d" % (pid, os.getpid()))
    os.makedirs(d, exist_ok=True)
    paths = []
    for i, t in enumerate(texts):
        p = os.path.join(d, "i%03d.smt2" % i)
        with open(p, "w") as f:
            f.write(t)
        paths.append(p)
    return d, paths


# ------------------------------------------------------------------------------------------------
# ThreadSanitizer
# ------------------------------------------------------------------------------------------------

def _stamp(paths):
    h = hashlib.md5()
    for p in sorted(paths):
        h.update(p.encode())
        h.update(str(os.path.getmtime(p)).encode())
    return h.hexdigest()


def build_tsan_small(name, harness_cc, repo_sources, defines=("H_NO_SOLVER",)):
    """g++ -fsanitize=thread of one harness plus a few repository sources (no library). Seconds."""
    tag = "" if vlib.IMPL.endswith("/build/impl") else "-" + hashlib.md5(vlib.IMPL.encode()).hexdigest()[:8]
    out_dir = os.path.join(vlib.BUILD, "harness" + tag)
    os.makedirs(out_dir, exist_ok=True)
    exe = os.path.join(out_dir, name)
    srcs = [harness_cc] + [os.path.join(vlib.REPO, s) for s in repo_sources]
    hdr_dirs = sorted({os.path.dirname(s) for s in srcs[1:]} | {os.path.join(vlib.REPO, "src/common")})
    hdrs = [os.path.join(d, f) for d in hdr_dirs for f in os.listdir(d) if f.endswith(".h")]
    st = _stamp(srcs + hdrs)
    with vlib.Lock("tsan-" + name):
        sp = exe + ".stamp"
        if os.path.exists(exe) and os.path.exists(sp) and open(sp).read() == st:
            return exe, "up to date"
        cmd = ["g++", "-std=c++20", "-O1", "-g", "-w", "-fsanitize=thread", "-D" + vlib.GUARD] + ["-D" + d for d in defines] + \
            ["-I" + d for d in hdr_dirs] + srcs + ["-o", exe, "-lgmpxx", "-lgmp", "-lpthread"]
        rc, out = vlib.sh(cmd, timeout=600)
        if rc != 0:
            return None, out[-3000:]
        open(sp, "w").write(st)
        return exe, out


def build_tsan_lib():
    """Whole library with -fsanitize=thread (thorough tier only; about two minutes on 16 cores,
    incremental afterwards).  Returns (libpath or None, log)."""
    tag = "" if vlib.IMPL.endswith("/build/impl") else "-" + hashlib.md5(vlib.IMPL.encode()).hexdigest()[:8]
    b = os.path.join(vlib.BUILD, "impl-tsan" + tag)
    with vlib.Lock("impl-tsan" + tag):
        if not os.path.exists(os.path.join(b, "build.ninja")):
            rc, out = vlib.sh(["cmake", "-G", "Ninja", "-S", vlib.REPO, "-B", b, "-DCMAKE_BUILD_TYPE=RelWithDebInfo",
                               "-DPACKAGE_TESTS=OFF", "-DBUILD_SHARED_LIBS=OFF", "-DBUILD_EXECUTABLES=OFF",
                               "-DCMAKE_CXX_FLAGS=-D%s -fsanitize=thread -O1 -g" % vlib.GUARD], timeout=600)
            if rc != 0:
                return None, out[-3000:]
        rc, out = vlib.sh(["ninja", "-C", b, "-j16"], timeout=3600)
        if rc != 0:
            return None, out[-3000:]
    for c in ("lib/libopensmt.a", "src/api/libopensmt.a"):
        p = os.path.join(b, c)
        if os.path.exists(p):
            return p, "ok"
    return None, "libopensmt.a not found in " + b


def compile_tsan_harness(name, lib):
    """harness/<name>.cc against the TSan library -> build/harness/<name>_tsanlib"""
    tag = "" if vlib.IMPL.endswith("/build/impl") else "-" + hashlib.md5(vlib.IMPL.encode()).hexdigest()[:8]
    out_dir = os.path.join(vlib.BUILD, "harness" + tag)
    os.makedirs(out_dir, exist_ok=True)
    src = os.path.join(vlib.VERIF, "harness", name + ".cc")
    exe = os.path.join(out_dir, name + "_tsanlib")
    with vlib.Lock("tsanh-" + name):
        if os.path.exists(exe) and os.path.getmtime(exe) >= max(os.path.getmtime(src), os.path.getmtime(lib)):
            return exe, "up to date"
        cmd = ["g++", "-std=c++20", "-O1", "-g", "-w", "-fsanitize=thread", "-D" + vlib.GUARD] + vlib.src_include_flags() + \
            [src, "-o", exe, lib, "-lgmpxx", "-lgmp", "-lpthread"]
        rc, out = vlib.sh(cmd, timeout=900)
        return (exe, out) if rc == 0 else (None, out[-3000:])


TSAN_ENV = dict(TSAN_OPTIONS="halt_on_error=0 report_signal_unsafe=0 history_size=4 exitcode=66 second_deadlock_stack=0")


def tsan_reports(out):
    """Parse ThreadSanitizer output: list of dict(kind, location, frames=[first repo frames of both accesses])."""
    reps = []
    for blk in out.split("==================")[1:]:
        m = re.search(r"WARNING: ThreadSanitizer: ([^\n(]+)", blk)
        if not m:
            continue
        loc = re.search(r"Location is (global|heap block|stack|TLS)[^\n]*?(?:'([^']+)')?[^\n]*", blk)
        frames = []
        for acc in re.split(r"\n\s*\n", blk):
            if not re.search(r"^\s*(?:Read|Write|Atomic read|Atomic write|Previous \w+(?: \w+)*) of size", acc.strip(), re.M) and "Previous" not in acc:
                continue
            for fm in re.finditer(r"#\d+ (.+?) (/[^\s:]+):(\d+)", acc):
                fn, path = fm.group(1), fm.group(2)
                if "/src/" in path and "/usr/" not in path and "/harness/" not in path:
                    frames.append("%s %s:%s" % (re.sub(r"\(.*", "", fn).strip(), os.path.basename(path), fm.group(3)))
                    break
        reps.append(dict(kind=m.group(1).strip(), location=(loc.group(2) or loc.group(1)) if loc else "", frames=frames,
                         text=blk.strip()[:5000], on_pool="mpqPool::" in blk or "FastRational::pool" in blk,
                         in_fastrational="FastRational" in blk or "__gmp" in blk,
                         flag_local=bool(re.search(r"CoreSMTSolver::(notifyStop|stopped)\b|MainSolver::notifyStop\b", blk)),
                         flag_global=bool(re.search(r"\b(notifyGlobalStop|globallyStopped|resetGlobalStop)\b|globalStopFlag", blk))))
    return reps
