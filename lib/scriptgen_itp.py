"""Generator of interpolation scripts for C08 / C09 (owner: work package itp).

gen(rng, logic=None, kgroups=None, ...) -> (text, meta)

Every script:  (set-option :produce-interpolants true) + a PRNG-chosen vector of the interpolation options,
2-6 *named* top-level assertions (sometimes unnamed ones, duplicates, a rejected non-Bool assert, push/pop
histories with re-assertion after pop), one or more check-sat commands each followed by get-interpolants
requests.  Every query command is bracketed by (echo "@@b<k>") / (echo "@@e<k>") so that the answers can be
aligned even when other commands print error responses or the solver dies.

Unsat by construction (families chain / euf / split / cnf) or filtered with z3 (family rand; z3 is only a
filter here: the check itself looks at what the solver answered).
All random choices come from the rng handed in.
"""
import scriptgen
import vlib

LOGICS = ["QF_UF", "QF_LRA", "QF_LIA", "QF_BOOL"]

# value ranges read off /repo/src/options/SMTConfig.h:163-177 and the places that use them
BOOL_ALGS = [0, 1, 2, 3, 4, 5]          # McMillan, Pudlak, McMillan', PS, PSw, PSs (InterpolationContext.cc:365)
EUF_ALGS = [0, 2, 3]                    # strong, weak, random (SMTConfig.h:169-171, UFInterpolator.h:156)
# values 4 and 5 are read by an experimental path (UFInterpolator.cc:670-850) but are no named algorithm: with them get-interpolants
# dies with SIGSEGV on small QF_UF inputs (observed; C18's business) — they are outside C08's quantifier and not generated
LRA_ALGS = [0, 2, 3, 4, 5]              # strong, weak, factor, decomposing strong, decomposing weak (LASolver.cc:719)
LRA_FACTORS = ["0", "1/2", "1/3", "3/4", "9/10", "1/100"]
REDUCE = [0, 1]
SIMPLIFY = [0, 1, 2, 3, 4]              # InterpolationContext::simplifyInterpolant


def option_vector(rng, logic, plain=False):
    """dict option -> value text; plain = defaults only"""
    o = {}
    if plain:
        return o
    if rng.random() < 0.85:
        o[":interpolation-bool-algorithm"] = str(rng.choice(BOOL_ALGS))
    if logic == "QF_UF" and rng.random() < 0.8:
        o[":interpolation-euf-algorithm"] = str(rng.choice(EUF_ALGS))
    if logic in ("QF_LRA", "QF_LIA") and rng.random() < 0.85:
        algs = LRA_ALGS      # factor (3) under QF_LIA: LASolver.cc:723 only asserts "not hasIntegers" (no-op in release builds)
        a = rng.choice(algs)
        o[":interpolation-lra-algorithm"] = str(a)
        if a == 3 or rng.random() < 0.1:
            o[":interpolation-lra-factor"] = '"%s"' % rng.choice(LRA_FACTORS)
    if rng.random() < 0.4:
        o[":proof-reduce"] = str(rng.choice(REDUCE))
        if o[":proof-reduce"] == "1" and rng.random() < 0.5:
            o[":proof-num-graph-traversals"] = str(rng.randint(1, 3))
    if rng.random() < 0.5:
        o[":simplify-interpolants"] = str(rng.choice(SIMPLIFY))
    return o


class Fam:
    """Families of unsatisfiable assertion lists (lists of formula strings)."""

    def __init__(self, rng, logic, g):
        self.r, self.logic, self.g = rng, logic, g

    # --- helpers
    def groups(self, items, k):
        """split a list of conjunct strings into k non-empty formulas (random assignment)"""
        r = self.r
        k = max(1, min(k, len(items)))
        r.shuffle(items)
        buckets = [[items[i]] for i in range(k)]
        for it in items[k:]:
            buckets[r.randrange(k)].append(it)
        out = []
        for b in buckets:
            out.append(b[0] if len(b) == 1 else "(and %s)" % " ".join(b))
        return out

    def lit(self, n):
        return self.g.lit(n)

    # --- arithmetic: a cycle of (strict / non-strict) difference-like constraints with coefficients
    def chain(self, k):
        r, g = self.r, self.g
        vs = list(g.numvars)
        while len(vs) < 3:
            vs.append(vs[-1])
        r.shuffle(vs)
        n = r.randint(2, len(vs))
        cyc = vs[:n]
        items = []
        total = 0
        strict_any = False
        for i in range(n):
            x, y = cyc[i], cyc[(i + 1) % n]
            c = r.randint(-3, 3)
            total += c
            strict = r.random() < 0.4
            strict_any = strict_any or strict
            m = r.choice([1, 1, 1, 2, 3])
            # x + c <= y   scaled by m
            lhs = "(+ %s %s)" % (x, self.lit(c)) if c != 0 or r.random() < 0.3 else x
            if m != 1:
                lhs = "(* %d %s)" % (m, lhs)
                rhs = "(* %d %s)" % (m, y)
            else:
                rhs = y
            form = r.random()
            if form < 0.5:
                items.append("(%s %s %s)" % ("<" if strict else "<=", lhs, rhs))
            elif form < 0.8:
                items.append("(%s %s %s)" % (">" if strict else ">=", rhs, lhs))
            else:
                items.append("(not (%s %s %s))" % ("<=" if strict else "<", rhs, lhs))
        # the cycle gives  sum c <= 0 (or < 0 when a strict edge exists): make it contradictory
        if total < 0 or (total == 0 and not strict_any):
            need = -total + (0 if strict_any and r.random() < 0.5 else 1)
            x, y = cyc[0], cyc[1 % n]
            # extra edge y + need' <= x is not a cycle edge; instead strengthen an existing edge: add  x + need <= y
            items.append("(<= (+ %s %s) %s)" % (x, self.lit(need + (r.randint(0, 2))), y))
            # together with the rest of the cycle: need + rest >= ... ; fall back on the z3 filter for exactness
        if r.random() < 0.4:
            items.append(g.formula(1))
        return self.groups(items, k)

    # --- bounds on a linear combination (Farkas with non-unit coefficients)
    def farkas(self, k):
        r, g = self.r, self.g
        vs = list(g.numvars)
        n = r.randint(2, max(2, len(vs)))
        items = []
        # rows  sum a_ij x_j <= b_i  with a positive combination lambda giving 0 <= negative
        lam = [r.randint(1, 3) for _ in range(n)]
        rows = [[r.randint(-3, 3) for _ in vs] for _ in range(n - 1)]
        last = [-sum(lam[i] * rows[i][j] for i in range(n - 1)) for j in range(len(vs))]
        # last row scaled by lam[n-1] must cancel: choose lam[n-1] = 1
        lam[n - 1] = 1
        rows.append(last)
        bs = [r.randint(-4, 4) for _ in range(n)]
        s = sum(l * b for l, b in zip(lam, bs))
        strict = [r.random() < 0.3 for _ in range(n)]
        if s > 0 or (s == 0 and not any(strict)):
            bs[-1] -= s + (0 if any(strict) and r.random() < 0.5 else 1)
        for row, b, st in zip(rows, bs, strict):
            ts = ["(* %s %s)" % (self.lit(a), v) if a != 1 else v for a, v in zip(row, vs) if a != 0]
            if not ts:
                ts = [self.lit(0)]
            lhs = ts[0] if len(ts) == 1 else "(+ %s)" % " ".join(ts)
            items.append("(%s %s %s)" % ("<" if st else "<=", lhs, self.lit(b)))
        if r.random() < 0.3:
            items.append(g.formula(1))
        return self.groups(items, k)

    # --- integers: parity / cut style conflicts (need branching)
    def liacut(self, k):
        r, g = self.r, self.g
        vs = list(g.numvars)
        while len(vs) < 3:
            vs.append(vs[-1])
        x, y, z = vs[0], vs[1], vs[2]
        m = r.choice([2, 2, 3, 4])
        c = r.randint(1, m - 1)
        kind = r.random()
        if kind < 0.4:
            items = ["(= %s (* %d %s))" % (x, m, y), "(= %s (+ (* %d %s) %d))" % (x, m, z, c)]
        elif kind < 0.7:
            items = ["(< (* %d %s) (+ (* %d %s) %d))" % (m, y, m, z, c), "(> (* %d %s) (* %d %s))" % (m, y, m, z)]
        else:
            a = r.randint(0, 3)
            items = ["(> (* %d %s) %d)" % (m, x, m * a), "(< (* %d %s) %d)" % (m, x, m * (a + 1)), "(<= %s %s)" % (y, x), "(<= %s %s)" % (x, y)]
        if r.random() < 0.3:
            items.append(g.formula(1))
        return self.groups(items, k)

    # --- EUF: equality chains through function applications + a disequality / predicate clash
    def euf(self, k):
        r, g = self.r, self.g
        us = list(g.uvars)
        while len(us) < 3:
            us.append(us[-1])
        r.shuffle(us)
        n = r.randint(2, len(us))
        ch = us[:n]
        items = []
        f = g.ufuns[0][0]
        wrap = (lambda t: "(%s %s)" % (f, t)) if g.ufuns[0][1] == 1 else (lambda t: "(%s %s %s)" % (f, t, t))
        for i in range(n - 1):
            a, b = ch[i], ch[i + 1]
            if r.random() < 0.3:
                a, b = wrap(a), wrap(b)
                # congruence needs the arguments equal as well
                items.append("(= %s %s)" % (ch[i], ch[i + 1]))
            items.append("(= %s %s)" % ((a, b) if r.random() < 0.5 else (b, a)))
        lhs, rhs = ch[0], ch[-1]
        d = r.randint(0, 2)
        for _ in range(d):
            lhs, rhs = wrap(lhs), wrap(rhs)
        if len(g.ufuns) > 1 and r.random() < 0.4:
            o = r.choice(us)
            lhs, rhs = "(g %s %s)" % (lhs, o), "(g %s %s)" % (rhs, o)
        kind = r.random()
        if g.upreds and kind < 0.3:
            items += ["(q %s)" % lhs, "(not (q %s))" % rhs]
        elif kind < 0.5:
            items.append("(distinct %s %s)" % (lhs, rhs))
        else:
            items.append("(not (= %s %s))" % (lhs, rhs))
        if r.random() < 0.4:
            items.append(g.formula(1))
        return self.groups(items, k)

    # --- F, and the pieces of its negation
    def split(self, k):
        r, g = self.r, self.g
        n = r.randint(2, 4)
        gs = [g.formula(r.randint(0, 2)) for _ in range(n)]
        items = ["(or %s)" % " ".join(gs)] + ["(not %s)" % x for x in gs]
        if r.random() < 0.3:
            items.append(g.formula(1))
        return self.groups(items, k)

    # --- implication chains  p0, p0 => F1, F1 => F2, not F2
    def impl(self, k):
        r, g = self.r, self.g
        n = r.randint(2, 4)
        fs = [g.formula(r.randint(0, 1)) for _ in range(n)]
        items = [fs[0]] + ["(=> %s %s)" % (fs[i], fs[i + 1]) for i in range(n - 1)] + ["(not %s)" % fs[-1]]
        return self.groups(items, k)

    # --- random CNF near/above the threshold over the Boolean variables (+ theory atoms)
    def cnf(self, k):
        r, g = self.r, self.g
        atoms = list(g.boolvars)
        for _ in range(r.randint(0, 3)):
            atoms.append(g.atom(1))
        nv = len(atoms)
        ncl = int(nv * r.choice([4.5, 5.5, 7]))
        items = []
        for _ in range(ncl):
            w = r.choice([1, 2, 2, 3, 3, 3]) if r.random() < 0.3 else r.choice([2, 3])
            ls = []
            for a in r.sample(atoms, min(w, nv)):
                ls.append(a if r.random() < 0.5 else "(not %s)" % a)
            items.append(ls[0] if len(ls) == 1 else "(or %s)" % " ".join(ls))
        return self.groups(items, k)

    # --- BMC-like layers: group i relates the interface variables of layer i-1 to those of layer i (path interpolation).
    #     Drawn until the conjunction is propositionally unsat while every proper prefix and suffix of groups is satisfiable
    #     (brute force over the <= 10 layer variables), so that the interpolants of the sequence are not constants.
    def layers(self, k):
        import itertools
        r, g = self.r, self.g
        k = max(2, min(k, 6))
        w = 3 if k <= 4 else 2
        lv = [g.layervars[w * i:w * i + w] for i in range(k - 1)]
        allv = [v for l in lv for v in l]

        def draw():
            groups = []
            for i in range(k):
                left = lv[i - 1] if i > 0 else []
                right = lv[i] if i < k - 1 else []
                cls = []
                for _ in range(r.randint(2, 5)):
                    if left and right:
                        vs = r.sample(left, r.randint(1, 2)) + r.sample(right, r.randint(1, 2))
                    else:
                        vs = r.sample(left or right, r.randint(1, 2))
                    cls.append([(v, r.random() < 0.5) for v in vs])
                if r.random() < 0.2 and i + 1 < k - 1:
                    cls.append([(r.choice(left or right), r.random() < 0.5), (r.choice(lv[i + 1]), r.random() < 0.5)])
                groups.append(cls)
            return groups

        def sat(groups):
            cls = [c for gp in groups for c in gp]
            for bits in itertools.product([False, True], repeat=len(allv)):
                a = dict(zip(allv, bits))
                if all(any(a[v] == sgn for v, sgn in c) for c in cls):
                    return True
            return False
        groups = draw()
        for _ in range(300):
            if not sat(groups) and all(sat(groups[:i]) for i in range(1, k)) and all(sat(groups[i:]) for i in range(1, k)):
                break
            groups = draw()
        out = []
        for i, gp in enumerate(groups):
            cls = []
            for c in gp:
                ls = [v if sgn else "(not %s)" % v for v, sgn in c]
                cls.append(ls[0] if len(ls) == 1 else "(or %s)" % " ".join(ls))
            if r.random() < 0.2 and (g.num or g.usort):
                cls.append("(or %s %s)" % (r.choice(allv), g.atom(1)))
            out.append(cls[0] if len(cls) == 1 else "(and %s)" % " ".join(cls))
        return out

    # --- random formulas (filtered)
    def rand(self, k):
        r, g = self.r, self.g
        return [g.formula(r.randint(1, 2)) for _ in range(k)]


FAMILIES = {
    "QF_BOOL": ["cnf", "cnf", "split", "impl", "rand"],
    "QF_UF": ["euf", "euf", "euf", "split", "impl", "cnf", "rand"],
    "QF_LRA": ["chain", "chain", "farkas", "farkas", "split", "impl", "cnf", "rand"],
    "QF_LIA": ["chain", "chain", "farkas", "liacut", "split", "impl", "cnf", "rand"],
    "QF_UFLRA": ["chain", "split"],
}


def z3_unsat(logic, decls, formulas, timeout=5):
    lg = "QF_UF" if logic == "QF_BOOL" else logic
    txt = "(set-logic %s)\n%s\n%s\n(check-sat)\n" % (lg, "\n".join(decls), "\n".join("(assert %s)" % f for f in formulas))
    rc, out = vlib.run_ref("z3", txt, timeout=timeout)
    return out.strip().split("\n")[0].strip() == "unsat" if out.strip() else False


def unsat_list(rng, logic, g, n, tries=25):
    """(family, list of n' <= n formulas) that z3 considers unsat; None when none was found"""
    fam = Fam(rng, logic, g)
    for _ in range(tries):
        name = rng.choice(FAMILIES[logic] + ["layers"])
        if getattr(g, "prefer", None) and rng.random() < 0.8:
            name = g.prefer
        fs = getattr(fam, name)(n)
        if len(fs) >= 2 and z3_unsat(logic, g.decls, fs):
            return name, fs
    return None, None


def request(rng, names, k):
    """a get-interpolants command over the given current names with k groups (ordered partition; the last group
    may be a subset of the remaining names: the implementation ignores it, the property does not mention it)"""
    ns = list(names)
    if rng.random() < 0.5:
        rng.shuffle(ns)         # otherwise: the order of assertion (contiguous cuts, the shape path interpolation is used in)
    k = max(2, min(k, len(ns)))
    cuts = sorted(rng.sample(range(1, len(ns)), k - 1))
    groups = [ns[a:b] for a, b in zip([0] + cuts, cuts + [len(ns)])]
    if len(groups[-1]) > 1 and rng.random() < 0.15:
        groups[-1] = groups[-1][: rng.randint(1, len(groups[-1]) - 1)]
    return groups


def group_text(gp):
    return gp[0] if len(gp) == 1 else "(and %s)" % " ".join(gp)


def gen(rng, logic=None, kgroups=None, features=None, plain_options=False):
    """Returns (text, meta).  features: subset of {'reject','dup','unnamed','incr','repop','midopt'} or None = PRNG."""
    logic = logic or rng.choice(LOGICS)
    g = scriptgen.Gen(rng, logic, divmod=False)
    g.layervars = ["x%d" % i for i in range(10)]
    g.decls += ["(declare-fun %s () Bool)" % v for v in g.layervars]
    g.prefer = "layers" if kgroups and rng.random() < 0.5 else None
    if features is None:
        features = set()
        if rng.random() < 0.08:
            features.add("reject")
        if rng.random() < 0.08:
            features.add("dup")
        if rng.random() < 0.25:
            features.add("unnamed")
        if rng.random() < 0.3:
            features.add("incr")
            if rng.random() < 0.4:
                features.add("repop")
        if rng.random() < 0.15:
            features.add("midopt")
    opts = option_vector(rng, logic, plain=plain_options)
    lines = ["(set-option :produce-interpolants true)"]
    for o, v in opts.items():
        lines.append("(set-option %s %s)" % (o, v))
    lines.append("(set-logic %s)" % ("QF_UF" if logic == "QF_BOOL" else logic))
    lines += g.decls
    qn = [0]
    nm = [0]
    nreq = [0]

    def q(cmd):
        qn[0] += 1
        return ['(echo "@@b%d")' % qn[0], cmd, '(echo "@@e%d")' % qn[0]]

    def assert_lines(fs, current_names, unnamed_ok=True):
        out = []
        for f in fs:
            if "reject" in features and rng.random() < 0.5 and (g.numvars or g.uvars):
                out.append("(assert %s)" % rng.choice(g.numvars or g.uvars))     # non-Bool: rejected
            if unnamed_ok and "unnamed" in features and rng.random() < 0.3:
                out.append("(assert %s)" % f)
                continue
            nm[0] += 1
            out.append("(assert (! %s :named a%d))" % (f, nm[0]))
            current_names.append("a%d" % nm[0])
            if "dup" in features and rng.random() < 0.4:
                nm[0] += 1
                out.append("(assert (! %s :named a%d))" % (f, nm[0]))
                current_names.append("a%d" % nm[0])
        return out

    def requests(current_names):
        out = []
        if len(current_names) < 2:
            return out
        for _ in range(rng.randint(1, 2)):
            if kgroups:
                k = kgroups if isinstance(kgroups, int) else rng.choice(kgroups)
            else:
                k = 2 if rng.random() < 0.6 else rng.randint(3, 5)
            gs = request(rng, current_names, k)
            out += q("(get-interpolants %s)" % " ".join(group_text(x) for x in gs))
            nreq[0] += 1
            if "midopt" in features and rng.random() < 0.5:
                o2 = option_vector(rng, logic)
                for o, v in o2.items():
                    out.append("(set-option %s %s)" % (o, v))
        return out

    n = rng.randint(2, 6) if not kgroups else rng.randint(max(3, kgroups if isinstance(kgroups, int) else 3), 6)
    fams = []
    if "incr" not in features:
        fam, fs = unsat_list(rng, logic, g, n)
        if fs is None:
            fam, fs = "fallback", [g.boolvars[0], "(not %s)" % g.boolvars[0]]
        fams.append(fam)
        names = []
        lines += assert_lines(fs, names, unnamed_ok=len(fs) > 2)
        if len(names) < 2:      # need two named ones
            nm[0] += 1
            lines.append("(assert (! %s :named a%d))" % (g.formula(1), nm[0]))
            names.append("a%d" % nm[0])
        lines += q("(check-sat)")
        lines += requests(names)
    else:
        # base level: part of an unsat list; pushed level: the rest (+ check + requests); pop; another completion
        fam, fs = unsat_list(rng, logic, g, n)
        if fs is None:
            fam, fs = "fallback", [g.boolvars[0], "(not %s)" % g.boolvars[0], g.formula(1)]
        fams.append(fam)
        cut = rng.randint(1, len(fs) - 1)
        base, rest = fs[:cut], fs[cut:]
        names0 = []
        lines += assert_lines(base, names0)
        rounds = rng.randint(1, 3)
        for rd in range(rounds):
            lines.append("(push 1)")
            names1 = list(names0)
            if rd == 0 or "repop" in features:
                add = rest        # the same formulas again after the pop: first index in the never-popped vector differs
            else:
                fam2, fs2 = unsat_list(rng, logic, g, rng.randint(2, 4))
                fams.append(fam2 or "none")
                add = fs2 or rest
            lines += assert_lines(add, names1)
            if rng.random() < 0.25:
                lines.append("(push 1)")
                names2 = list(names1)
                lines += assert_lines([g.formula(1)], names2)
                lines += q("(check-sat)")
                lines += requests(names2)
                lines.append("(pop 1)")
            else:
                lines += q("(check-sat)")
                lines += requests(names1)
            lines.append("(pop 1)")
        if rng.random() < 0.5:
            # after the last pop: complete at level 0
            lines += assert_lines(rest, names0)
            lines += q("(check-sat)")
            lines += requests(names0)
    return "\n".join(lines) + "\n", dict(logic=logic, options=opts, features=sorted(features), families=fams, nqueries=qn[0], nrequests=nreq[0])


# =============================================================================================
# Focused sweeps (added after seeded changes were missed: see design/C08.md "seeded changes")
# =============================================================================================

def _q(qn, cmd):
    qn[0] += 1
    return ['(echo "@@b%d")' % qn[0], cmd, '(echo "@@e%d")' % qn[0]]


def _ordered_groups(rng, names, k):
    """k groups over all names; half of the time in the order of assertion"""
    return request(rng, names, k)


class _B:
    """propositional formulas as python trees: ('v', name) ('not', f) ('and', fs) ('or', fs) ('xor', a, b)"""

    @staticmethod
    def ev(f, a):
        t = f[0]
        if t == "v":
            return a[f[1]]
        if t == "not":
            return not _B.ev(f[1], a)
        if t == "and":
            return all(_B.ev(x, a) for x in f[1])
        if t == "or":
            return any(_B.ev(x, a) for x in f[1])
        return _B.ev(f[1], a) != _B.ev(f[2], a)

    @staticmethod
    def tx(f):
        t = f[0]
        if t == "v":
            return f[1]
        if t == "not":
            return "(not %s)" % _B.tx(f[1])
        if t in ("and", "or"):
            return _B.tx(f[1][0]) if len(f[1]) == 1 else "(%s %s)" % (t, " ".join(_B.tx(x) for x in f[1]))
        return "(xor %s %s)" % (_B.tx(f[1]), _B.tx(f[2]))


def _lit(rng, v):
    return ("v", v) if rng.random() < 0.5 else ("not", ("v", v))


def _nested(rng, vs, depth):
    op = rng.choice(["and", "or", "or"])
    kids = []
    for v in rng.sample(vs, min(len(vs), rng.randint(2, 3))):
        kids.append(_lit(rng, v) if depth <= 1 or rng.random() < 0.6 else _nested(rng, vs, depth - 1))
    return (op, kids)


def _bool_instance(rng, ngroups):
    """list of ngroups formulas (python trees) over variables vs, propositionally unsat as a whole; the refutations of these
    shapes reuse derived clauses (random 3-SAT above the threshold, mixed clauses + nested and/or, parity chains, pigeons)"""
    import itertools
    shape = rng.choice(["mix", "mix", "mix", "3sat", "3sat", "xor", "php"])
    for _ in range(60):
        if shape == "mix":
            nv = rng.randint(5, 9)
            vs = ["v%d" % i for i in range(nv)]
            groups = []
            for _g in range(ngroups):
                sub = rng.sample(vs, rng.randint(3, min(nv, 6)))
                cls = []
                for _c in range(rng.randint(3, 7)):
                    if rng.random() < 0.7:
                        cls.append(("or", [_lit(rng, v) for v in rng.sample(sub, min(rng.randint(2, 3), len(sub)))]))
                    else:
                        cls.append(_nested(rng, sub, 2))
                groups.append(("and", cls))
        elif shape == "3sat":
            nv = rng.randint(8, 11)
            vs = ["v%d" % i for i in range(nv)]
            ncl = int(nv * rng.choice([4.6, 5.2, 6.0]))
            cls = [("or", [_lit(rng, v) for v in rng.sample(vs, 3)]) for _c in range(ncl)]
            rng.shuffle(cls)
            groups = [[] for _g in range(ngroups)]
            for i, c in enumerate(cls):
                groups[i % ngroups if rng.random() < 0.5 else rng.randrange(ngroups)].append(c)
            groups = [("and", gp) for gp in groups if gp]
        elif shape == "xor":
            nv = rng.randint(5, 9)
            vs = ["v%d" % i for i in range(nv)]
            # a cycle of parity constraints with odd total parity
            links = []
            par = 0
            for i in range(nv):
                b = rng.random() < 0.5
                par ^= b
                x = ("xor", ("v", vs[i]), ("v", vs[(i + 1) % nv]))
                links.append(x if b else ("not", x))
            if not par:
                links[0] = ("not", links[0]) if links[0][0] == "xor" else links[0][1]
            links += [("or", [_lit(rng, v) for v in rng.sample(vs, 2)]) for _c in range(rng.randint(0, 3))]
            rng.shuffle(links)
            groups = [[] for _g in range(ngroups)]
            for i, c in enumerate(links):
                groups[i % ngroups].append(c)
            groups = [("and", gp) for gp in groups if gp]
        else:
            holes = 2
            pig = 3
            vs = ["v%d" % (i * holes + j) for i in range(pig) for j in range(holes)] + ["v6", "v7"]
            P = lambda i, j: ("v", "v%d" % (i * holes + j))
            cls = [("or", [P(i, j) for j in range(holes)]) for i in range(pig)]
            cls += [("or", [("not", P(i, j)), ("not", P(k, j))]) for j in range(holes) for i in range(pig) for k in range(i + 1, pig)]
            cls += [("or", [_lit(rng, v) for v in rng.sample(vs, 3)]) for _c in range(rng.randint(0, 4))]
            rng.shuffle(cls)
            groups = [[] for _g in range(ngroups)]
            for i, c in enumerate(cls):
                groups[rng.randrange(ngroups) if rng.random() < 0.6 else i % ngroups].append(c)
            groups = [("and", gp) for gp in groups if gp]
        if len(groups) < 2:
            continue
        sat = False
        for bits in itertools.product([False, True], repeat=len(vs)):
            a = dict(zip(vs, bits))
            if all(_B.ev(gp, a) for gp in groups):
                sat = True
                break
        if not sat:
            return shape, vs, groups
        if shape == "3sat" and rng.random() < 0.5:
            shape = "mix"
    v0, v1 = ("v", "v0"), ("v", "v1")
    if ngroups >= 3:
        return "fallback", ["v0", "v1"], [v0, ("or", [("not", v0), v1]), ("not", v1)]
    return "fallback", ["v0", "v1"], [v0, ("not", v0)]


def gen_boolsweep(rng, kgroups=None):
    """One propositional instance; every request is repeated under EVERY value of :simplify-interpolants (0..4), each time with a
    PRNG :interpolation-bool-algorithm (options are read when get-interpolants builds its InterpolationContext)."""
    n = rng.randint(2, 4) if not kgroups else rng.randint(3, 5)
    r = _bool_instance(rng, n)
    shape, vs, groups = r[0], r[1], r[2]
    lines = ["(set-option :produce-interpolants true)"]
    if rng.random() < 0.3:
        lines.append("(set-option :proof-reduce 1)")
    lines.append("(set-logic QF_UF)")
    lines += ["(declare-fun %s () Bool)" % v for v in vs]
    names = []
    for i, gp in enumerate(groups):
        lines.append("(assert (! %s :named a%d))" % (_B.tx(gp), i))
        names.append("a%d" % i)
    qn = [0]
    lines += _q(qn, "(check-sat)")
    nreq = 0
    for _ in range(1 if kgroups else rng.randint(1, 2)):
        k = 2 if not kgroups else rng.randint(3, min(5, len(names)))
        if len(names) < k:
            k = len(names)
        gs = request(rng, names, k)
        cmd = "(get-interpolants %s)" % " ".join(group_text(x) for x in gs)
        levels = [0, 1, 2, 3, 4]
        rng.shuffle(levels)
        for lv in levels:
            lines.append("(set-option :simplify-interpolants %d)" % lv)
            lines.append("(set-option :interpolation-bool-algorithm %d)" % rng.choice(BOOL_ALGS))
            lines += _q(qn, cmd)
            nreq += 1
    return "\n".join(lines) + "\n", dict(logic="QF_BOOL", options={}, features=["boolsweep"], families=["boolsweep-" + shape], nqueries=qn[0], nrequests=nreq)


def _lterm(c, v):
    if c == 1:
        return v
    if c == -1:
        return "(- %s)" % v
    return "(* %s %s)" % (str(c) if c >= 0 else "(- %d)" % -c, v)


def gen_decomp(rng, kgroups=None):
    """A Farkas conflict aimed at the decomposing interpolation algorithms (:interpolation-lra-algorithm 4 / 5): an A side of 4-8
    inequalities over 2-4 A-local variables (local-variable matrix with nullity >= 2) and shared variables (one per inequality,
    or 1-3 shared variables spread over the inequalities), a B side closing the conflict; assertions in random order; the
    request is repeated under PRNG-ordered values of :interpolation-lra-algorithm (always 4 and 5, plus one of 0, 2, 3)."""
    logic = "QF_LRA" if rng.random() < 0.8 else "QF_LIA"
    sort = "Real" if logic == "QF_LRA" else "Int"
    r = rng.randint(1, 4) if rng.random() < 0.3 else rng.randint(2, 4)
    m = min(8, r + rng.randint(2, 4))
    lam = [rng.randint(1, 4) for _ in range(m - 1)] + [1]
    M = []
    for _j in range(r):
        row = [rng.randint(-3, 3) for _ in range(m - 1)]
        row.append(-sum(row[k] * lam[k] for k in range(m - 1)))
        M.append(row)
    us = ["u%d" % j for j in range(r)]
    own = rng.random() < 0.6
    if own:
        ss = ["s%d" % k for k in range(m)]
        N = [[1 if i == k else 0 for k in range(m)] for i in range(m)]
    else:
        q = rng.randint(1, 3)
        ss = ["s%d" % i for i in range(q)]
        N = [[rng.randint(-2, 2) for _k in range(m)] for _i in range(q)]
        for k in range(m):
            if all(N[i][k] == 0 for i in range(q)):
                N[rng.randrange(q)][k] = rng.choice([-1, 1, 2])
    cs = [rng.randint(-2, 2) if rng.random() < 0.4 else 0 for _ in range(m)]
    A = []
    for k in range(m):
        ts = [_lterm(M[j][k], us[j]) for j in range(r) if M[j][k] != 0] + [_lterm(N[i][k], ss[i]) for i in range(len(ss)) if N[i][k] != 0]
        if cs[k]:
            ts.append(str(cs[k]) if cs[k] > 0 else "(- %d)" % -cs[k])
        lhs = "(+ %s)" % " ".join(ts) if len(ts) > 1 else ts[0]
        strict = rng.random() < 0.2
        form = rng.random()
        if form < 0.6:
            A.append("(%s %s 0)" % (">" if strict else ">=", lhs))
        elif form < 0.8:
            A.append("(%s 0 %s)" % ("<" if strict else "<=", lhs))
        else:
            A.append("(not (%s %s 0))" % ("<=" if strict else "<", lhs))
    # sum_k lam_k * A_k :  sum_i (sum_k lam_k N[i][k]) s_i + sum_k lam_k c_k >= 0
    coef = [sum(lam[k] * N[i][k] for k in range(m)) for i in range(len(ss))]
    const = sum(lam[k] * cs[k] for k in range(m))
    ts = [_lterm(coef[i], ss[i]) for i in range(len(ss)) if coef[i] != 0]
    form_s = "(+ %s)" % " ".join(ts) if len(ts) > 1 else (ts[0] if ts else "0")
    bound = -const - 1 - rng.randint(0, 2)          # form_s <= bound  contradicts  form_s >= -const
    btxt = str(bound) if bound >= 0 else "(- %d)" % -bound
    lines = ["(set-option :produce-interpolants true)"]
    if rng.random() < 0.5:
        lines.append("(set-option :interpolation-bool-algorithm %d)" % rng.choice(BOOL_ALGS))
    if rng.random() < 0.25:
        lines.append("(set-option :simplify-interpolants %d)" % rng.choice(SIMPLIFY))
    lines.append("(set-logic %s)" % logic)
    decl = us + ss + (["t"] if kgroups else [])
    rng.shuffle(decl)
    lines += ["(declare-fun %s () %s)" % (v, sort) for v in decl]
    named = []            # (name, formula, side)
    if kgroups:
        for k, f in enumerate(A):
            named.append(("c%d" % k, f, "A"))
        named.append(("b1", "(<= %s t)" % form_s, "B"))
        named.append(("b2", "(<= t %s)" % btxt, "B"))
    else:
        split_a = rng.random() < 0.5
        if split_a:
            for k, f in enumerate(A):
                named.append(("c%d" % k, f, "A"))
        else:
            order = list(A)
            rng.shuffle(order)
            named.append(("pa", "(and %s)" % " ".join(order), "A"))
        named.append(("pb", "(<= %s %s)" % (form_s, btxt), "B"))
    rng.shuffle(named)
    for nm, f, _side in named:
        lines.append("(assert (! %s :named %s))" % (f, nm))
    qn = [0]
    lines += _q(qn, "(check-sat)")
    an = [nm for nm, _f, side in named if side == "A"]
    bn = [nm for nm, _f, side in named if side == "B"]
    algs = [4, 5, rng.choice([0, 2, 3])]
    rng.shuffle(algs)
    nreq = 0
    for alg in algs:
        lines.append("(set-option :interpolation-lra-algorithm %d)" % alg)
        if alg == 3:
            lines.append('(set-option :interpolation-lra-factor "%s")' % rng.choice(LRA_FACTORS))
        if kgroups:
            if rng.random() < 0.6 or len(an) < 2:
                ga = [an]
            else:
                cut = rng.randint(1, len(an) - 1)
                ga = [an[:cut], an[cut:]]
            gb = [[b] for b in (bn if rng.random() < 0.5 else bn[::-1])]
            gs = ga + gb if rng.random() < 0.7 else gb + ga
        else:
            gs = [an, bn] if rng.random() < 0.6 else [bn, an]
        lines += _q(qn, "(get-interpolants %s)" % " ".join(group_text(x) for x in gs))
        nreq += 1
    return "\n".join(lines) + "\n", dict(logic=logic, options={}, features=["decomp"], families=["decomp-%s" % ("own" if own else "few")], nqueries=qn[0], nrequests=nreq)
