"""Untrusted exact LP (python fractions) that looks for Farkas coefficients of an infeasible set of linear
constraints.  Only used to *find* certificates; every certificate is re-checked by the extracted Coq
checker (Th/Farkas.v), so nothing here is trusted.

constraints: list of (lin: dict var->Fraction, op in {'le','lt','eq'}, rhs: Fraction)   meaning  lin op rhs
farkas(constraints) -> list of Fraction (one per constraint; 0 = unused; equalities may be negative) or None
"""
from fractions import Fraction


def _feasible(M, r):
    """x >= 0 with M x = r (exact). Phase-1 simplex, Bland's rule. Returns x or None."""
    m = len(M)
    n = len(M[0]) if m else 0
    if m == 0:
        return [Fraction(0)] * n
    # make r >= 0
    T = []
    for i in range(m):
        row = list(M[i])
        ri = r[i]
        if ri < 0:
            row = [-x for x in row]
            ri = -ri
        # artificial columns
        T.append(row + [Fraction(1) if j == i else Fraction(0) for j in range(m)] + [ri])
    basis = [n + i for i in range(m)]
    ncols = n + m
    # objective: minimise sum of artificials  ->  reduced costs z_j = -(sum of rows)_j for original columns
    obj = [Fraction(0)] * (ncols + 1)
    for i in range(m):
        for j in range(ncols + 1):
            obj[j] -= T[i][j]
    for i in range(m):
        obj[n + i] = Fraction(0)
    it = 0
    while True:
        it += 1
        if it > 20000:
            return None
        # entering: smallest index with negative reduced cost (Bland)
        e = -1
        for j in range(ncols):
            if obj[j] < 0:
                e = j
                break
        if e < 0:
            break
        # leaving: min ratio, ties by smallest basis index
        lv, best = -1, None
        for i in range(m):
            a = T[i][e]
            if a > 0:
                ratio = T[i][ncols] / a
                if best is None or ratio < best or (ratio == best and basis[i] < basis[lv]):
                    best, lv = ratio, i
        if lv < 0:
            return None  # unbounded (cannot happen in phase 1)
        p = T[lv][e]
        T[lv] = [x / p for x in T[lv]]
        for i in range(m):
            if i != lv and T[i][e] != 0:
                f = T[i][e]
                T[i] = [x - f * y for x, y in zip(T[i], T[lv])]
        f = obj[e]
        if f != 0:
            obj = [x - f * y for x, y in zip(obj, T[lv])]
        basis[lv] = e
    if obj[ncols] != 0:     # -(sum of artificials) != 0  -> infeasible
        return None
    x = [Fraction(0)] * n
    for i in range(m):
        if basis[i] < n:
            x[basis[i]] = T[i][ncols]
        elif T[i][ncols] != 0:
            return None
    return x


def farkas(constraints):
    cs = constraints
    if not cs:
        return None
    vars_ = sorted({v for l, _, _ in cs for v in l})
    # columns: for each constraint one column (ineq) or two (eq: plus / minus)
    cols = []
    for i, (l, op, b) in enumerate(cs):
        cols.append((i, 1))
        if op == "eq":
            cols.append((i, -1))
    base_rows = []
    for v in vars_:
        base_rows.append([cs[i][0].get(v, Fraction(0)) * s for i, s in cols])
    brow = [cs[i][2] * s for i, s in cols]
    srow = [Fraction(1) if cs[i][1] == "lt" else Fraction(0) for i, s in cols]
    zero = [Fraction(0)] * len(vars_)
    for mode in ("neg", "strict"):
        if mode == "neg":
            M = base_rows + [brow]
            r = zero + [Fraction(-1)]
        else:
            if not any(op == "lt" for _, op, _ in cs):
                continue
            M = base_rows + [brow, srow]
            r = zero + [Fraction(0), Fraction(1)]
        x = _feasible(M, r)
        if x is not None:
            lam = [Fraction(0)] * len(cs)
            for (i, s), xv in zip(cols, x):
                lam[i] += s * xv
            return lam
    return None
