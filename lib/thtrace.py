"""Trace events of the OPENSMT_VERIF hooks (design/TRACE_FORMAT.md) -> python objects, and SMT-LIB linear
arithmetic atoms -> linear constraints.  Used by checks C26 / C11 (untrusted glue: what it produces is
re-checked by the extracted Coq checkers; a parsing mistake can only make a checker reject).

S-expressions: atoms are str, lists are python lists.  `|quoted symbols|` and "strings" are kept verbatim
(with their delimiters) so that printing back gives the same text.
"""
from fractions import Fraction


class ParseError(Exception):
    pass


def tokenize(s):
    i, n = 0, len(s)
    out = []
    while i < n:
        c = s[i]
        if c in " \t\r\n":
            i += 1
        elif c in "()":
            out.append(c)
            i += 1
        elif c == "|":
            j = s.find("|", i + 1)
            if j < 0:
                raise ParseError("unterminated |")
            out.append(s[i:j + 1])
            i = j + 1
        elif c == '"':
            j = i + 1
            while True:
                j = s.find('"', j)
                if j < 0:
                    raise ParseError("unterminated string")
                if j + 1 < n and s[j + 1] == '"':
                    j += 2
                    continue
                break
            out.append(s[i:j + 1])
            i = j + 1
        elif c == ";":
            j = s.find("\n", i)
            i = n if j < 0 else j
        else:
            j = i
            while j < n and s[j] not in " \t\r\n()|\";":
                j += 1
            out.append(s[i:j])
            i = j
    return out


def parse_all(s):
    """all top-level s-expressions of the text"""
    toks = tokenize(s)
    stack = [[]]
    for t in toks:
        if t == "(":
            stack.append([])
        elif t == ")":
            if len(stack) == 1:
                raise ParseError("unbalanced )")
            x = stack.pop()
            stack[-1].append(x)
        else:
            stack[-1].append(t)
    if len(stack) != 1:
        raise ParseError("unbalanced (")
    return stack[0]


def parse_one(s):
    r = parse_all(s)
    if len(r) != 1:
        raise ParseError("expected one s-expression")
    return r[0]


def show(e):
    if isinstance(e, str):
        return e
    return "(" + " ".join(show(x) for x in e) + ")"


# ---------------------------------------------------------------------------------------------
# numerals
# ---------------------------------------------------------------------------------------------

def _is_numeral(t):
    if not isinstance(t, str) or not t:
        return False
    if t.isdigit():
        return True
    if t.count(".") == 1:
        a, b = t.split(".")
        return a.isdigit() and b.isdigit()
    return False


def const_value(e):
    """Fraction value of a constant term (numeral, decimal, (- c), (/ a b)) or None"""
    if isinstance(e, str):
        if _is_numeral(e):
            return Fraction(e)
        return None
    if len(e) == 2 and e[0] == "-":
        v = const_value(e[1])
        return None if v is None else -v
    if len(e) == 3 and e[0] == "/":
        a, b = const_value(e[1]), const_value(e[2])
        if a is None or b is None or b == 0:
            return None
        return a / b
    return None


# ---------------------------------------------------------------------------------------------
# linear terms:  dict  key -> Fraction   (key "" = constant part; other keys = canonical text of the
# maximal non-arithmetic subterm: variables, UF applications, selects, ite terms ...)
# ---------------------------------------------------------------------------------------------

def lin_add(a, b, k=1):
    r = dict(a)
    for v, c in b.items():
        x = r.get(v, 0) + k * c
        if x == 0:
            r.pop(v, None)
        else:
            r[v] = x
    return r


def lin_scale(a, k):
    if k == 0:
        return {}
    return {v: c * k for v, c in a.items()}


def linearize(e):
    """SMT-LIB term -> linear form; products must have at most one non-constant factor."""
    cv = const_value(e)
    if cv is not None:
        return {"": cv} if cv != 0 else {}
    if isinstance(e, str):
        return {e: Fraction(1)}
    op = e[0]
    if op == "+":
        r = {}
        for x in e[1:]:
            r = lin_add(r, linearize(x))
        return r
    if op == "-" and len(e) == 2:
        return lin_scale(linearize(e[1]), -1)
    if op == "-" and len(e) > 2:
        r = linearize(e[1])
        for x in e[2:]:
            r = lin_add(r, linearize(x), -1)
        return r
    if op == "*":
        k = Fraction(1)
        rest = None
        for x in e[1:]:
            l = linearize(x)
            if set(l.keys()) <= {""}:
                k *= l.get("", 0)
            elif rest is None:
                rest = l
            else:
                raise ParseError("non-linear product " + show(e))
        return {"": k} if rest is None and k != 0 else ({} if rest is None else lin_scale(rest, k))
    if op == "/" and len(e) == 3:
        d = const_value(e[2])
        if d is None or d == 0:
            raise ParseError("division by non-constant " + show(e))
        return lin_scale(linearize(e[1]), 1 / d)
    # opaque subterm (UF application, select, ite, ...)
    return {show(e): Fraction(1)}


REL = {"<=": ("le", 1), "<": ("lt", 1), ">=": ("le", -1), ">": ("lt", -1)}


def atom_constraint(atom, polarity):
    """arithmetic literal -> list of alternatives, normally one constraint (lin, op, rhs) meaning  lin op rhs
    with op in {'le','lt','eq'};  a negated equality gives ('ne').  None when the atom is not arithmetic
    (the caller decides what to do)."""
    if isinstance(atom, str) or len(atom) != 3:
        return None
    op = atom[0]
    if op in REL:
        kind, sgn = REL[op]
        l = lin_add(linearize(atom[1]), linearize(atom[2]), -1)     # lhs - rhs  (kind) 0   [times sgn]
        l = lin_scale(l, sgn)
        if not polarity:
            # not (l <= 0)  ==  -l < 0 ;  not (l < 0) == -l <= 0
            l = lin_scale(l, -1)
            kind = "lt" if kind == "le" else "le"
        c = -l.pop("", Fraction(0))
        return (l, kind, c)
    if op == "=":
        l = lin_add(linearize(atom[1]), linearize(atom[2]), -1)
        c = -l.pop("", Fraction(0))
        return (l, "eq" if polarity else "ne", c)
    return None


def fmt_q(q):
    q = Fraction(q)
    return "%d/%d" % (q.numerator, q.denominator)


# ---------------------------------------------------------------------------------------------
# trace
# ---------------------------------------------------------------------------------------------

class Ev:
    __slots__ = ("kind", "inst", "lits", "terms", "vars", "tkind", "la", "line", "raw", "truncated")

    def __init__(self, kind):
        self.kind = kind
        self.inst = None
        self.lits = None
        self.terms = None
        self.vars = None
        self.tkind = None
        self.la = None
        self.line = 0
        self.raw = None
        self.truncated = False


def read_trace(text, want=("t", "la"), max_la=None, max_t=None):
    """Events of a trace text (an incomplete last line — the solver was killed — is dropped).
    Instances are canonicalised to small integers by order of first appearance.
    For 't' events `ev.la` is the immediately preceding (la ...) event (or None)."""
    evs = []
    inst = {}
    last_la = None
    n_la = n_t = 0
    lines = text.split("\n")
    if lines and lines[-1] != "":
        lines = lines[:-1]          # truncated line
    for ln, line in enumerate(lines, 1):
        if not line or line[0] != "(":
            continue
        k = line[1:line.find(" ")]
        if k not in want and not (k == "la" and "t" in want):
            continue
        if (max_la is not None and n_la >= max_la and k == "la") or (max_t is not None and n_t >= max_t and k == "t"):
            if evs:
                evs[-1].truncated = True
            break
        n_la += k == "la"
        n_t += k == "t"
        try:
            e = parse_one(line)
        except ParseError:
            if ln == len(lines):
                break
            raise
        ev = Ev(e[0])
        ev.line = ln
        ev.raw = line
        ev.inst = inst.setdefault(e[1], len(inst))
        if e[0] == "la":
            ev.la = [(x[0], x[1] == "true", x[2]) for x in e[2]]
            last_la = ev
            if "la" in want:
                evs.append(ev)
        elif e[0] == "t":
            ev.tkind = e[2]
            ev.lits = [int(x) for x in e[3]]
            ev.terms = e[4]
            ev.vars = [(show(v[0]), show(v[1])) for v in e[5]]
            ev.la = last_la if (last_la is not None and last_la.line == ln - 1) else None
            evs.append(ev)
        else:
            ev.lits = [int(x) for x in e[2]]
            evs.append(ev)
    return evs


def split_literal(t):
    """literal term -> (atom, polarity)"""
    if not isinstance(t, str) and len(t) == 2 and t[0] == "not":
        return t[1], False
    return t, True
