"""SMT-LIB front end used by the solver-level checks (trusted glue, exercised by round trips):
s-expression reader, script interpretation (declarations, define-fun inlining, let expansion, :named,
push/pop assertion stack) and elaboration of terms into the wire format of the verified evaluator
(ocaml/sem_driver.ml, coq/Sem).
"""
import re
from fractions import Fraction


class ParseError(Exception):
    pass


TOKEN = re.compile(r'''\s+|;[^\n]*|(\()|(\))|("(?:[^"]|"")*")|(\|[^|]*\|)|([^\s()|";]+)''')


def read_all(text):
    """Parse a text into a list of s-expressions (nested lists of str)."""
    stack, cur = [], []
    pos, n = 0, len(text)
    while pos < n:
        m = TOKEN.match(text, pos)
        if not m:
            raise ParseError("bad token at %d: %r" % (pos, text[pos:pos + 20]))
        pos = m.end()
        if m.group(1):
            stack.append(cur)
            cur = []
        elif m.group(2):
            if not stack:
                raise ParseError("unbalanced )")
            done = cur
            cur = stack.pop()
            cur.append(done)
        elif m.group(3):
            cur.append(m.group(3))
        elif m.group(4):
            cur.append(m.group(4))
        elif m.group(5):
            cur.append(m.group(5))
    if stack:
        raise ParseError("unbalanced (")
    return cur


def read_all_tolerant(text, placeholder=False):
    """Like read_all but drops unbalanced ')' at top level (or, with placeholder, reads each as an empty
    list); returns (list, number of stray parens)."""
    out, stray, depth, start = [], 0, 0, 0
    buf = []
    i, n = 0, len(text)
    chunks = []
    pos = 0
    toks = []
    while pos < n:
        m = TOKEN.match(text, pos)
        if not m:
            pos += 1
            continue
        pos = m.end()
        if m.group(1):
            depth += 1
            toks.append("(")
        elif m.group(2):
            if depth == 0:
                stray += 1
                if placeholder:
                    toks += ["(", ")"]
                continue
            depth -= 1
            toks.append(")")
        else:
            t = m.group(3) or m.group(4) or m.group(5)
            if t:
                toks.append(t)
    toks += [")"] * depth
    return read_all(" ".join(toks)), stray


def sx_str(x):
    if isinstance(x, list):
        return "(" + " ".join(sx_str(y) for y in x) + ")"
    return x


def unquote(sym):
    if len(sym) >= 2 and sym[0] == "|" and sym[-1] == "|":
        return sym[1:-1]
    return sym


NUM = re.compile(r"^[0-9]+$")
DEC = re.compile(r"^[0-9]+\.[0-9]+$")


class Sig:
    """Symbol table of a script: sorts, constants/functions, definitions; ids for the wire format."""

    def __init__(self, logic="ALL"):
        self.logic = logic
        self.usorts = {}          # name -> index
        self.funs = {}            # name -> (arg sorts tuple, result sort)   sorts: 'B','I','R',('U',i)
        self.ids = {}             # name -> wire id
        self.defs = {}            # name -> (params [(name, sort)], result sort, body sx)
        self.absvals = {}         # (sort idx, name) -> id
        self.scopes = []          # for push/pop of declarations (non-global)

    def copy_decl_state(self):
        return (dict(self.usorts), dict(self.funs), dict(self.defs))

    def restore_decl_state(self, st):
        self.usorts, self.funs, self.defs = dict(st[0]), dict(st[1]), dict(st[2])

    def num_sort(self):
        l = self.logic
        has_i = "IA" in l or "IDL" in l or "LIRA" in l
        has_r = "RA" in l or "RDL" in l
        if l in ("ALL",):
            return None
        if has_i and not has_r:
            return "I"
        if has_r and not has_i:
            return "R"
        if "LIRA" in l:
            return None
        return None

    def sort_of_sx(self, s):
        if s == "Bool":
            return "B"
        if s == "Int":
            return "I"
        if s == "Real":
            return "R"
        if isinstance(s, str):
            s = unquote(s)
            if s in self.usorts:
                return ("U", self.usorts[s])
        raise ParseError("unknown sort %s" % sx_str(s))

    def declare_sort(self, name):
        name = unquote(name)
        if name not in self.usorts:
            self.usorts[name] = len(self.usorts) + 1 + 100 * len(self.scopes)
            while list(self.usorts.values()).count(self.usorts[name]) > 1:
                self.usorts[name] += 1

    def declare_fun(self, name, args, res):
        name = unquote(name)
        self.funs[name] = (tuple(args), res)
        self.id_of(name)

    def id_of(self, name):
        if name not in self.ids:
            self.ids[name] = len(self.ids) + 1
        return self.ids[name]

    def abs_id(self, sortidx, name):
        k = (sortidx, name)
        if k not in self.absvals:
            self.absvals[k] = len(self.absvals) + 1
        return self.absvals[k]


def sort_wire(s):
    return {"B": "B", "I": "I", "R": "R"}.get(s) or "(U %d)" % s[1]


class Elab:
    """Elaboration of an s-expression term into (wire string, sort)."""

    def __init__(self, sig):
        self.sig = sig

    # -- sort inference without committing numerals --
    def infer(self, t, env):
        sig = self.sig
        if isinstance(t, str):
            if t in env:
                return env[t][1]
            if NUM.match(t):
                return None
            if DEC.match(t):
                return "R"
            if t in ("true", "false"):
                return "B"
            n = unquote(t)
            if n in sig.defs and not sig.defs[n][0]:
                return sig.defs[n][1]
            if n in sig.funs:
                return sig.funs[n][1]
            raise ParseError("unknown symbol %s" % t)
        if not t:
            raise ParseError("empty term")
        h = t[0]
        if h == "!":
            return self.infer(t[1], env)
        if h == "let":
            env2 = dict(env)
            for b in t[1]:
                env2[b[0]] = ("let", self.infer(b[1], env), b[1], env)
            return self.infer(t[2], env2)
        if h == "as":
            if isinstance(t[1], str) and t[1] in env:
                return env[t[1]][1]
            return self.sig.sort_of_sx(t[2])
        if isinstance(h, list):
            raise ParseError("bad head")
        if h in ("not", "and", "or", "xor", "=>", "=", "distinct", "<", "<=", ">", ">="):
            return "B"
        if h == "ite":
            return self.infer(t[2], env) or self.infer(t[3], env)
        if h in ("+", "-", "*"):
            for a in t[1:]:
                s = self.infer(a, env)
                if s:
                    return s
            return None
        if h == "/":
            return "R"
        if h in ("div", "mod", "abs"):
            return "I"
        if h == "to_real":
            return "R"
        if h == "to_int":
            return "I"
        n = unquote(h)
        if n in sig.defs:
            return sig.defs[n][1]
        if n in sig.funs:
            return sig.funs[n][1]
        raise ParseError("unknown function %s" % h)

    def numlit(self, txt, want):
        if want == "I":
            if not NUM.match(txt):
                raise ParseError("decimal in Int context")
            return "(i %d)" % int(txt), "I"
        if NUM.match(txt):
            return "(r %d 1)" % int(txt), "R"
        f = Fraction(txt)
        return "(r %d %d)" % (f.numerator, f.denominator), "R"

    def elab(self, t, env, want=None):
        sig = self.sig
        if isinstance(t, str):
            if t in env:
                e = env[t]
                if e[0] == "par":
                    return "(v %d)" % e[2], e[1]
                # let-bound: expand
                return self.elab(e[2], e[3], want or e[1])
            if NUM.match(t) or DEC.match(t):
                w = want if want in ("I", "R") else (sig.num_sort() or ("R" if DEC.match(t) else "I"))
                if DEC.match(t):
                    w = "R"
                return self.numlit(t, w)
            if t == "true":
                return "(b 1)", "B"
            if t == "false":
                return "(b 0)", "B"
            n = unquote(t)
            if n in sig.defs and not sig.defs[n][0]:
                d = sig.defs[n]
                return self.elab(d[2], {}, d[1])
            if n in sig.funs:
                args, res = sig.funs[n]
                if args:
                    raise ParseError("function %s used as constant" % n)
                return "(v %d)" % sig.id_of(n), res
            raise ParseError("unknown symbol %s" % t)
        h = t[0]
        if h == "!":
            return self.elab(t[1], env, want)
        if h == "let":
            env2 = dict(env)
            for b in t[1]:
                env2[b[0]] = ("let", self.infer(b[1], env), b[1], env)
            return self.elab(t[2], env2, want)
        if h == "as":
            if isinstance(t[1], str) and t[1] in env:
                return self.elab(t[1], env, want)       # qualified bound variable, e.g. (as x0 U) in a model body
            s = sig.sort_of_sx(t[2])
            if not (isinstance(t[1], str) and t[1].startswith("@")):
                n = unquote(t[1]) if isinstance(t[1], str) else None
                if n in sig.funs and not sig.funs[n][0]:
                    return "(v %d)" % sig.id_of(n), sig.funs[n][1]
                raise ParseError("unsupported qualified identifier %s" % sx_str(t))
            if not (isinstance(s, tuple) and s[0] == "U"):
                raise ParseError("abstract value of an interpreted sort: %s" % sx_str(t))
            return "(a %d %d)" % (s[1], sig.abs_id(s[1], t[1])), s
        args = t[1:]
        if h in ("not", "and", "or", "xor", "=>"):
            ws = []
            for a in args:
                w, s = self.elab(a, env, "B")
                if s != "B":
                    raise ParseError("non-Bool argument of %s" % h)
                ws.append(w)
            if h == "not" and len(ws) != 1:
                raise ParseError("not arity")
            if h == "xor":
                if len(ws) < 2:
                    raise ParseError("xor arity")
                acc = ws[0]
                for w in ws[1:]:
                    acc = "(xor %s %s)" % (acc, w)
                return acc, "B"
            return "(%s %s)" % (h, " ".join(ws)), "B"
        if h == "ite":
            c, cs = self.elab(args[0], env, "B")
            s = want or self.infer(args[1], env) or self.infer(args[2], env)
            a, sa = self.elab(args[1], env, s)
            b, sb = self.elab(args[2], env, s or sa)
            if cs != "B" or sa != sb:
                raise ParseError("ill-sorted ite")
            return "(ite %s %s %s)" % (c, a, b), sa
        if h in ("=", "distinct", "<", "<=", ">", ">=", "+", "-", "*", "/", "div", "mod"):
            s = None
            if h == "/":
                s = "R"
            elif h in ("div", "mod"):
                s = "I"
            elif h in ("+", "-", "*") and want in ("I", "R"):
                s = want
            if s is None:
                for a in args:
                    s = self.infer(a, env)
                    if s:
                        break
            if s is None:
                s = sig.num_sort() or "I"
            ws = []
            for a in args:
                w, sa = self.elab(a, env, s)
                if sa != s:
                    raise ParseError("ill-sorted arguments of %s: %s vs %s" % (h, sa, s))
                ws.append(w)
            if h in ("<", "<=", ">", ">=", "+", "-", "*", "/", "div", "mod") and s not in ("I", "R"):
                raise ParseError("non-numeric argument of %s" % h)
            if h == "-" and len(ws) == 1:
                return "(neg %s)" % ws[0], s
            if h in ("/", "div", "mod"):
                if len(ws) < 2:
                    raise ParseError("arity of %s" % h)
                acc = ws[0]
                for w in ws[1:]:
                    acc = "(%s %s %s)" % (h, acc, w)
                return acc, s
            if h in ("=", "distinct") and len(ws) < 2:
                raise ParseError("arity of %s" % h)
            res = "B" if h in ("=", "distinct", "<", "<=", ">", ">=") else s
            return "(%s %s)" % (h, " ".join(ws)), res
        if isinstance(h, list):
            raise ParseError("bad head")
        n = unquote(h)
        if n in sig.defs:
            params, res, body = sig.defs[n]
            if len(params) != len(args):
                raise ParseError("arity of %s" % n)
            env2 = {}
            for (pn, ps), a in zip(params, args):
                env2[pn] = ("let", ps, a, env)
            return self.elab(body, env2, res)
        if n in sig.funs:
            asorts, res = sig.funs[n]
            if len(asorts) != len(args):
                raise ParseError("arity of %s" % n)
            ws = []
            for a, s in zip(args, asorts):
                w, sa = self.elab(a, env, s)
                if sa != s:
                    raise ParseError("ill-sorted argument of %s" % n)
                ws.append(w)
            return "(app %d %s)" % (sig.id_of(n), " ".join(ws)), res
        raise ParseError("unknown function %s" % h)


def sig_wire(sig):
    out = []
    for n, (args, res) in sorted(sig.funs.items(), key=lambda kv: sig.ids[kv[0]]):
        if args:
            out.append("(f %d (%s) %s)" % (sig.ids[n], " ".join(sort_wire(a) for a in args), sort_wire(res)))
        else:
            out.append("(v %d %s)" % (sig.ids[n], sort_wire(res)))
    return "(sig %s)" % " ".join(out)


def model_wire(sig, model_sx):
    """model_sx: the parsed (get-model) answer: list of (define-fun name ((p S)...) S body)."""
    defs = []
    names = []
    el = Elab(sig)
    for d in model_sx:
        if not (isinstance(d, list) and len(d) == 5 and d[0] == "define-fun"):
            raise ParseError("unexpected model entry %s" % sx_str(d))
        name = unquote(d[1])
        names.append(name)
        res = sig.sort_of_sx(d[3])
        env, ps = {}, []
        for i, (pn, psx) in enumerate(d[2]):
            s = sig.sort_of_sx(psx)
            pid = 1000000 + 100 * len(defs) + i
            env[pn] = ("par", s, pid)
            ps.append("(%d %s)" % (pid, sort_wire(s)))
        body, bs = Elab(_BodySig(sig)).elab(d[4], env, res)
        defs.append("(def %d (%s) %s %s)" % (sig.id_of(name), " ".join(ps), sort_wire(res), body))
    return "(model %s)" % " ".join(defs), names


class _BodySig(Sig):
    """Inside model bodies no declared symbol may occur (only parameters, literals, abstract values)."""

    def __init__(self, sig):
        self.__dict__.update(sig.__dict__)
        self.funs = {}
        self.defs = {}


class Script:
    """Interprets a script far enough to know, at each check-sat, the active assertions and names."""

    def __init__(self, text):
        self.text = text
        self.cmds = read_all(text)

    def run(self):
        """Yield ('check-sat' | 'get-model' | ..., index, state snapshot) for query commands."""
        sig = Sig()
        glob = False
        frames = [[]]          # assertion stack: list of frames, each a list of (sx, name or None)
        declstack = []
        out = []
        for idx, c in enumerate(self.cmds):
            if not isinstance(c, list) or not c:
                continue
            k = c[0]
            if k == "set-logic":
                sig.logic = c[1]
            elif k == "set-option":
                if c[1] == ":global-declarations":
                    glob = c[2] == "true"
            elif k == "declare-sort":
                sig.declare_sort(c[1])
            elif k == "declare-fun":
                sig.declare_fun(c[1], [sig.sort_of_sx(s) for s in c[2]], sig.sort_of_sx(c[3]))
            elif k == "declare-const":
                sig.declare_fun(c[1], [], sig.sort_of_sx(c[2]))
            elif k == "define-fun":
                sig.defs[unquote(c[1])] = ([(p[0], sig.sort_of_sx(p[1])) for p in c[2]], sig.sort_of_sx(c[3]), c[4])
            elif k == "assert":
                t = c[1]
                name = None
                if isinstance(t, list) and t and t[0] == "!" and ":named" in t:
                    name = t[t.index(":named") + 1]
                frames[-1].append((t, name))
            elif k == "push":
                n = int(c[1]) if len(c) > 1 else 1
                for _ in range(n):
                    frames.append([])
                    declstack.append(sig.copy_decl_state())
            elif k == "pop":
                n = int(c[1]) if len(c) > 1 else 1
                for _ in range(n):
                    if len(frames) > 1:
                        frames.pop()
                        st = declstack.pop()
                        if not glob:
                            sig.restore_decl_state(st)
            elif k in ("check-sat", "get-model", "get-value", "get-unsat-core", "get-interpolants", "get-assignment", "get-proof", "echo", "exit", "get-info", "get-option"):
                out.append((k, idx, c, [list(f) for f in frames], sig))
        self.sig = sig
        return out


def fraction_of_value_sx(v):
    """(- 3), (/ 1 3), (/ (- 1) 3), 5, 2.5 -> Fraction"""
    if isinstance(v, str):
        return Fraction(v)
    if v[0] == "-" and len(v) == 2:
        return -fraction_of_value_sx(v[1])
    if v[0] == "/" and len(v) == 3:
        return fraction_of_value_sx(v[1]) / fraction_of_value_sx(v[2])
    raise ParseError("not a numeric value: %s" % sx_str(v))
