"""Shared engine of the answer-correctness checks C01 / C02 / C05 / C04 / C29: run generated scripts under option
vectors, judge every definitive answer (certified by the verified evaluator where possible, untrusted oracles
z3/cvc5 otherwise)."""
import concurrent.futures as cf
import random
import re
import smtlib
import solvercheck as sc
from smtlib import sx_str

CONFIGS = {
    "default": [],
    "lookahead": [":pure-lookahead true"],
    "lookahead-deep": [":pure-lookahead true", ":lookahead-score-deep true"],
    "picky": [":picky true"],
    "ghost": [":pure-lookahead true", ":ghost-vars true"],
    "non-incremental": [":incremental 0"],
    "proofs": [":produce-proofs true"],
    "interpolants": [":produce-interpolants true"],
    "cores": [":produce-unsat-cores true"],
    "no-subst": [":do-substitutions 0"],
    "no-luby": [":luby-restart false", ":restart-first 3"],
    "ccmin0": [":ccmin-mode 0"],
    "seed7": [":random-seed 7", ":random-var-freq 0.3"],
    "no-elim": [":elim false"],
}

EMBED = {"QF_IDL": "QF_LIA", "QF_RDL": "QF_LRA", "QF_UF": "ALL", "QF_LRA": "QF_UFLRA", "QF_LIA": "QF_UFLIA", "QF_BOOL": "ALL"}


def with_options(text, opts, logic=None):
    lines = text.split("\n")
    out = ["(set-option %s)" % o for o in opts]
    for l in lines:
        if logic and l.startswith("(set-logic"):
            l = "(set-logic %s)" % logic
        out.append(l)
    return "\n".join(out)


_judge_cache = {}
_judge_lock = __import__("threading").Lock()


def cached(kind, fn, sig, logic, decls, A, *extra):
    key = (kind, logic, tuple(decls), sx_str(A), sx_str(list(extra)) if extra else "")
    with _judge_lock:
        if key in _judge_cache:
            return _judge_cache[key]
    v = fn(sig, logic, decls, A, *extra)
    with _judge_lock:
        _judge_cache[key] = v
    return v


def run_one(job):
    text, cfg, opts, logic_override, timeout = job[:5]
    want_sat, want_unsat, logic = job[5:8] if len(job) >= 8 else (False, False, None)
    t = with_options(text, opts, logic_override)
    rc, res, out, err = sc.run_aligned(t, timeout=timeout)
    judged = {}
    if rc in (0, 1) and (want_sat or want_unsat):
        ans = answers_of(text, res, out)
        if ans is not None:
            decls = sc.decl_lines(text)
            for k, a, frames, sig, model in ans:
                A = sc.active_assertions(frames)
                lg = "QF_UF" if logic == "QF_BOOL" else logic
                if a == "unsat" and want_unsat:
                    judged[k] = cached("unsat", sc.judge_unsat, sig, lg, decls, A)
                elif a == "sat" and want_sat:
                    judged[k] = sc.judge_sat(sig, lg, decls, A, model)
    return rc, res, out, err, t, judged


def run_jobs(jobs, workers=12):
    with cf.ThreadPoolExecutor(max_workers=workers) as ex:
        return list(ex.map(run_one, jobs))


def answers_of(text, res, out):
    """List of (check index, answer, frames, sig, model sx or None) from aligned results; None if misaligned."""
    nq = sum(1 for c in smtlib.read_all(text) if isinstance(c, list) and c and c[0] in ("check-sat", "get-model", "get-value", "get-assignment",
                                                                                          "get-unsat-core", "get-interpolants", "get-proof"))
    outs, stray = smtlib.read_all_tolerant(out, placeholder=True)
    if len(outs) != nq:
        return None
    qs = [q for q in sc.Script(text).run() if q[0] != "exit"]
    ans = []
    k = 0
    cur = None
    for (kind, idx, cmd, frames, sig), a in zip(qs, outs):
        if kind == "check-sat":
            k += 1
            cur = [k, a if isinstance(a, str) else sx_str(a), frames, sig, None]
            ans.append(cur)
        elif kind == "get-model" and cur is not None and isinstance(a, list) and not (a and a[0] == "error"):
            cur[4] = a
    return ans


def signature_tail(logic, cfg, assertions, incremental=False):
    big = any(int(x) > 2**53 for x in re.findall(r"[0-9]{16,}", sx_str(assertions)))
    return "%s:%s%s%s" % (logic, cfg, ":incremental" if incremental else "", ":const>2^53" if big else "")


def sweep(ctx, pid, n_scripts, cfgs_per_script, judge_sat=True, judge_unsat=True, gen_kwargs=None, logics=None,
          compare_configs=False, embed=False, timeout=10, all_configs=False):
    """Generate scripts, run each under several option vectors, judge answers; records cases/violations in ctx."""
    import scriptgen
    gen_kwargs = gen_kwargs or {}
    scripts = []
    for i in range(n_scripts):
        rng = random.Random(ctx.seed * 104729 + i * 31 + sum(map(ord, pid)) + gen_kwargs.get("stream", 0) * 7919)
        inc = rng.random() < gen_kwargs.get("p_incremental", 0.35)
        text, meta = scriptgen.gen_script(rng, incremental=inc, logics=logics, big=rng.random() < gen_kwargs.get("p_big", 0.2),
                                          queries=("model",), named=False, nassert=gen_kwargs.get("nassert"),
                                          depth=gen_kwargs.get("depth"), p_special=gen_kwargs.get("p_special", 0.3))
        names = list(CONFIGS) if all_configs else ["default"] + rng.sample([c for c in CONFIGS if c != "default"], cfgs_per_script - 1)
        scripts.append((text, meta, names))
    jobs, index = [], []
    for si, (text, meta, names) in enumerate(scripts):
        for c in names:
            jobs.append((text, c, CONFIGS[c], None, timeout, judge_sat, judge_unsat, meta["logic"]))
            index.append((si, c))
        if embed and meta["logic"] in EMBED:
            jobs.append((text, "embed:" + EMBED[meta["logic"]], [], EMBED[meta["logic"]], timeout, judge_sat, judge_unsat, meta["logic"]))
            index.append((si, "embed:" + EMBED[meta["logic"]]))
    results = run_jobs(jobs)
    per_script = {}
    for (si, cfg), (rc, res, out, err, t, judged) in zip(index, results):
        text, meta, _ = scripts[si]
        logic = meta["logic"]
        if rc == -9:
            ctx.count("timeout:%s" % cfg)
            continue
        if rc < 0 or rc > 1:
            ctx.count("crash:%s" % cfg)
            continue
        ans = answers_of(text, res, out)
        if ans is None:
            ctx.count("misaligned-output(skipped)")
            continue
        decls = sc.decl_lines(text)
        per_script.setdefault(si, {})[cfg] = [a[1] for a in ans]
        for k, a, frames, sig, model in ans:
            A = sc.active_assertions(frames)
            ctx.count("answer:%s" % a)
            key = (text, cfg, k)
            if a == "unsat" and judge_unsat:
                v, detail = judged.get(k) or ("undecided", "not judged")
                ctx.case(key=key, nontrivial=len(A) > 0, kind="unsat:%s:%s" % (logic, v),
                         sample=dict(script=t, check_index=k, answer=a, verdict=v))
                if v in ("refuted-certified", "refuted-oracles"):
                    ctx.violation("wrong-unsat:%s:%s" % (v, signature_tail(logic, cfg, A, meta["incremental"])),
                                  "answered unsat for a satisfiable assertion set (%s) under config %s" % (
                                      "model validated by the Coq-extracted evaluator" if v == "refuted-certified" else "z3 and cvc5 both say sat; ORACLE-ONLY", cfg),
                                  dict(script=t, check_index=k, config=cfg, assertions=[sx_str(x) for x in A], model=detail))
            elif a == "sat" and judge_sat:
                v, detail = judged.get(k) or ("undecided", "not judged")
                ctx.case(key=key, nontrivial=len(A) > 0, kind="sat:%s:%s" % (logic, v),
                         sample=dict(script=t, check_index=k, answer=a, verdict=v))
                if v == "refuted-oracles":
                    ctx.violation("wrong-sat:refuted-oracles:%s" % signature_tail(logic, cfg, A, meta["incremental"]),
                                  "answered sat (own model rejected by the verified evaluator: %s) while z3 and cvc5 both say unsat; ORACLE-ONLY for unsatisfiability" % detail,
                                  dict(script=t, check_index=k, config=cfg, assertions=[sx_str(x) for x in A]))
                elif v == "model-invalid-but-sat":
                    ctx.count("sat-with-invalid-model(C03)")
            else:
                ctx.case(key=key, nontrivial=a in ("sat", "unsat") and len(A) > 0, kind="other:%s:%s" % (logic, a))
    if compare_configs:
        for si, d in per_script.items():
            text, meta, _ = scripts[si]
            cfgs = sorted(d)
            for i in range(len(cfgs)):
                for j in range(i + 1, len(cfgs)):
                    a, b = d[cfgs[i]], d[cfgs[j]]
                    for k, (x, y) in enumerate(zip(a, b)):
                        if {x, y} == {"sat", "unsat"}:
                            ctx.violation("contradiction:%s:%s%s" % (meta["logic"], "+".join(sorted([cfgs[i].split(":")[0], cfgs[j].split(":")[0]])), (":incremental" if meta["incremental"] else "") + (":const>2^53" if any(int(x) > 2**53 for x in re.findall(r"[0-9]{16,}", text)) else "")),
                                          "configurations %s and %s give contradicting answers (%s / %s) on check %d" % (cfgs[i], cfgs[j], x, y, k + 1),
                                          dict(script=text, configs=[cfgs[i], cfgs[j]], options=[CONFIGS.get(cfgs[i], cfgs[i]), CONFIGS.get(cfgs[j], cfgs[j])], answers=[a, b]))
            ctx.case(key=("cmp", text), nontrivial=len(d) > 1, kind="compared:%d-configs" % len(d))
    return scripts, per_script


def run_corpus(ctx, pid, judge_sat=True, judge_unsat=True):
    """Minimised failing cases kept from earlier runs (corpus/<pid>/*.smt2 with header lines `; config: <name>` and
    `; logic: <logic>`) are run before the generated cases."""
    import glob
    import os
    import vlib
    for f in sorted(glob.glob(os.path.join(vlib.VERIF, "corpus", pid, "*.smt2"))):
        raw = open(f).read()
        m = re.search(r"^; config: (\S+)", raw, re.M)
        cfg = m.group(1) if m else "default"
        m = re.search(r"^; logic: (\S+)", raw, re.M)
        logic = m.group(1) if m else "QF_UF"
        text = "\n".join(l for l in raw.split("\n") if not l.startswith(";")) + "\n"
        rc, res, out, err, t, judged = run_one((text, cfg, CONFIGS[cfg], None, 10, judge_sat, judge_unsat, logic))
        ans = answers_of(text, res, out) if rc in (0, 1) else None
        ctx.case(key=("corpus", f), nontrivial=True, kind="corpus:%s" % os.path.basename(f), sample=dict(script=t, rc=rc))
        inc = "(push" in text
        for k, a, frames, sig, model in (ans or []):
            v = judged.get(k)
            if not v:
                continue
            A = sc.active_assertions(frames)
            if a == "sat" and v[0] == "refuted-oracles":
                ctx.violation("wrong-sat:%s:%s" % (v[0], signature_tail(logic, cfg, A, inc)),
                              "corpus case %s: answered sat, own model rejected (%s), z3 and cvc5 say unsat (ORACLE-ONLY)" % (os.path.basename(f), v[1]),
                              dict(script=t, config=cfg, check_index=k))
            if a == "unsat" and v[0] in ("refuted-certified", "refuted-oracles"):
                ctx.violation("wrong-unsat:%s:%s" % (v[0], signature_tail(logic, cfg, A, inc)),
                              "corpus case %s: answered unsat for a satisfiable assertion set (%s)" % (os.path.basename(f), v[0]),
                              dict(script=t, config=cfg, check_index=k, model=v[1]))
