"""Per-run decision procedure of C08 / C09 (owner: work package itp).

For a script produced by lib/scriptgen_itp.py (or a corpus file): run the working-tree binary, align the answers
with the bracketed query commands, and for every get-interpolants request made in an unsat state whose groups
are names / conjunctions of names of CURRENT assertions decide

  request-rejected     the answer is an (error ...) response, nothing, or the solver died
  A-not-implies-I      A /\ not I satisfiable            (A = requested group(s), cumulative for sequences)
  I-and-B-sat          I /\ B satisfiable                (B = all OTHER current assertions, unnamed ones included)
  foreign-symbol       I mentions a symbol that is not a user-declared uninterpreted symbol occurring in both A and B
  path-step-fails      I_i /\ G_{i+1} /\ not I_{i+1} satisfiable   (C09)

independently of the solver's internals: satisfiability is proposed by z3 / cvc5 (untrusted) and confirmed by the
Coq-verified evaluator (solvercheck.certify_sat_with_oracle_model).
"""
import re
import smtlib
import solvercheck as sc
import vlib
from smtlib import ParseError, sx_str, Elab

IN_SCOPE = ("QF_UF", "QF_LRA", "QF_LIA", "QF_BOOL")
MARK = re.compile(r"^@@([be])(\d+)\s*$")


# ---------------------------------------------------------------------------------------------
# script side: what is current, what was asked
# ---------------------------------------------------------------------------------------------

class History:
    """Interpretation of the script: per query command the current assertions (rejected non-Bool asserts dropped),
    the option state, and the bookkeeping needed to predict the front end's partition masks."""

    def __init__(self, text):
        self.text = text
        self.cmds = smtlib.read_all(text)
        self.logic = None
        self.queries = []          # dict(k, kind, cmd, current=[(uid, sx, name)], sig, opts, log=[...])
        self._run()

    def _run(self):
        sig = smtlib.Sig()
        el = Elab(sig)
        frames = [[]]
        opts = {}
        log = []            # every assert command that reached `assertions.push`: (uid, sx stripped, accepted)
        uid = 0
        k = 0
        overlap = []
        minlevel = 0
        for c in self.cmds:
            if not isinstance(c, list) or not c:
                continue
            h = c[0]
            if h == "set-logic":
                sig.logic = c[1]
                self.logic = c[1]
            elif h == "set-option":
                opts[c[1]] = c[2] if len(c) > 2 else None
            elif h == "declare-sort":
                sig.declare_sort(c[1])
            elif h == "declare-fun":
                sig.declare_fun(c[1], [sig.sort_of_sx(s) for s in c[2]], sig.sort_of_sx(c[3]))
            elif h == "declare-const":
                sig.declare_fun(c[1], [], sig.sort_of_sx(c[2]))
            elif h == "define-fun":
                sig.defs[smtlib.unquote(c[1])] = ([(p[0], sig.sort_of_sx(p[1])) for p in c[2]], sig.sort_of_sx(c[3]), c[4])
            elif h == "assert":
                t = c[1]
                name = None
                if isinstance(t, list) and t and t[0] == "!" and ":named" in t:
                    name = t[t.index(":named") + 1]
                try:
                    srt = el.infer(t, {})
                    if srt is None:
                        srt = sig.num_sort() or "I"
                except ParseError:
                    continue          # unparsable term: parseTerm fails, nothing is pushed (Interpret.cc:226)
                uid += 1
                body = sc.strip_named(t)
                if srt != "B":
                    log.append((uid, body, False))
                    continue
                log.append((uid, body, True))
                frames[-1].append((uid, t, name))
                alive = {x[0] for f in frames for x in f}
                for (u2, b2, ok2) in log[:-1]:
                    if ok2 and u2 in alive and b2 == body:
                        overlap.append((u2, uid))       # the same term asserted again while the earlier assertion is still current
            elif h == "push":
                for _ in range(int(c[1]) if len(c) > 1 else 1):
                    frames.append([])
            elif h == "pop":
                for _ in range(int(c[1]) if len(c) > 1 else 1):
                    if len(frames) > 1:
                        frames.pop()
                        minlevel = min(minlevel, len(frames) - 1)
            elif h in ("check-sat", "get-interpolants"):
                k += 1
                cur_uids = {x[0] for f in frames for x in f}
                self.queries.append(dict(k=k, kind=h, cmd=c, current=[x for f in frames for x in f], sig=sig,
                                         opts=dict(opts), log=list(log), level=len(frames) - 1, minlevel=minlevel,
                                         dup_popped=any(u not in cur_uids or v not in cur_uids for (u, v) in overlap)))
                minlevel = len(frames) - 1
        self.sig = sig


def front_end_source_facts():
    """Pattern tie between coq/Front/ItpRequest.v and the working tree's src/api/Interpret.cc: returns
    dict(variant='push-first'|'push-after', first_equal=bool, never_popped=bool) or raises ValueError when the code is no
    longer recognised (the caller reports a broken tie)."""
    import os
    path = os.path.join(vlib.REPO, "src", "api", "Interpret.cc")
    txt = open(path, errors="replace").read()
    m = re.search(r"case\s+t_assert\s*:(.*?)case\s+t_definefun\s*:", txt, re.S)
    if not m:
        raise ValueError("Interpret.cc: the t_assert case is not found")
    blk = m.group(1)
    ip, ii = blk.find("assertions.push(tr)"), blk.find("insertFormula(tr)")
    if ip < 0 or ii < 0 or blk.count("assertions.push(") != 1:
        raise ValueError("Interpret.cc: t_assert no longer pushes on `assertions` exactly once / calls insertFormula(tr)")
    g = re.search(r"int\s+Interpret::get_assertion_index\s*\(\s*PTRef\s+(\w+)\s*\)\s*\{(.*?)\n\}", txt, re.S)
    first_equal = bool(g and re.search(r"for\s*\(\s*int\s+i\s*=\s*0\s*;\s*i\s*<\s*assertions\.size\(\)\s*;\s*\+\+i\s*\)\s*\{\s*if\s*\(\s*%s\s*==\s*assertions\[i\]\s*\)\s*\{\s*return\s+i\s*;" % g.group(1), g.group(2)))
    if not first_equal:
        raise ValueError("Interpret.cc: get_assertion_index is no longer the first-equal-term loop")
    never_popped = not re.search(r"assertions\s*\.\s*(pop|shrink|clear|shrink_)\s*\(", txt)
    if not never_popped:
        raise ValueError("Interpret.cc: `assertions` is now shrunk somewhere (model: never popped)")
    gi = re.search(r"void\s+Interpret::getInterpolants\s*\(.*?\n\}", txt, re.S)
    if not gi or "is_top_level_assertion(group)" not in gi.group(0) or "logic->isAnd(group)" not in gi.group(0) \
            or not re.search(r"ipartitions_t\s+p\s*=\s*0\s*;\s*(//[^\n]*\n\s*)*for\s*\(", gi.group(0)):
        raise ValueError("Interpret.cc: getInterpolants no longer has the modelled shape (top-level test, isAnd, cumulative mask p)")
    return dict(variant="push-first" if ip < ii else "push-after", first_equal=True, never_popped=True)


_FRONT = None


def front_facts():
    global _FRONT
    if _FRONT is None:
        try:
            _FRONT = front_end_source_facts()
        except (ValueError, OSError) as e:
            _FRONT = dict(error=str(e))
    return _FRONT


def front_end_masks(q, groups, same=None, fixd=False):
    """What Interpret::getInterpolants does (Interpret.cc:1326-1362, modelled in coq/Front/ItpRequest.v): a name stands for
    its term; the partition index of a term is the FIRST position of an equal term in the never-popped vector of
    everything that was pushed by an assert command (rejected ones included); masks are cumulative; an (and ...) group is
    rebuilt with Logic::mkAnd first (duplicates collapse).
    `same(b1, b2)`: may the two assertion bodies be the same hash-consed term?  (syntactic equality by default; the
    caller passes logical equivalence, an over-approximation of term identity).
    Returns (predicted index sets, index sets the solver side gives to the named assertions, causes)."""
    same = same or (lambda a, b: a == b)
    log = [e for e in q["log"] if e[2]] if fixd else q["log"]      # repaired front end: rejected terms are not recorded
    pos_of_uid = {u: i for i, (u, _, _) in enumerate(log)}
    true_idx = {}
    n = 0
    for u, _, ok in log:
        if ok:
            true_idx[u] = n          # MainSolver::insertFormula: insertedFormulasCount++ (MainSolver.cc:118)
            n += 1
    by_name = {nm: (u, sc.strip_named(t)) for (u, t, nm) in q["current"] if nm}
    current_uids = {u for (u, _, _) in q["current"]}
    pred, want, causes = [], [], set()
    accp, accw = set(), set()
    for gp in groups[:-1]:
        for nm in gp:
            u, body = by_name[nm]
            first = next(i for i, (_, b, ok) in enumerate(log) if b == body or (ok and same(b, body)))
            accp.add(first)
            accw.add(true_idx[u])
            if first != true_idx[u]:
                fu = log[first][0]
                if first != pos_of_uid[u]:
                    causes.add("dup" if fu in current_uids else "popped-dup")
                if any(not ok for (_, _, ok) in log[:first + 1]):
                    causes.add("rejected-assert")
        pred.append(set(accp))
        want.append(set(accw))
    return pred, want, causes


def parse_groups(cmd):
    gs = []
    for a in cmd[1:]:
        if isinstance(a, str):
            gs.append([a])
        elif isinstance(a, list) and a and a[0] == "and" and all(isinstance(x, str) for x in a[1:]):
            gs.append(list(a[1:]))
        else:
            return None
    return gs


# ---------------------------------------------------------------------------------------------
# solver side
# ---------------------------------------------------------------------------------------------

def run(text, timeout=30, args=()):
    """Returns dict(rc, out, err, seg={k: text printed by query k or None when its end marker never came})."""
    for attempt in range(6):
        try:
            rc, out, err = vlib.run_opensmt(text, args=args, timeout=timeout)
            break
        except OSError:
            # the binary is being relinked by a concurrent build of the same tree: wait for it (bin/check built it before run())
            if attempt == 5:
                raise
            import time
            time.sleep(5)
    seg, cur, buf = {}, None, []
    started = set()
    for line in out.split("\n"):
        m = MARK.match(line)
        if m:
            if m.group(1) == "b":
                cur, buf = int(m.group(2)), []
                started.add(cur)
            elif cur == int(m.group(2)):
                seg[cur] = "\n".join(buf)
                cur = None
            continue
        if cur is not None:
            buf.append(line)
    partial = "\n".join(buf) if cur is not None else None
    return dict(rc=rc, out=out, err=err, seg=seg, started=started, dangling=(cur, partial) if cur is not None else None)


def symbols_of(sx, sig, bound=frozenset()):
    """user-declared symbols occurring in a term (let-bound names shadow)"""
    out = set()
    if isinstance(sx, str):
        n = smtlib.unquote(sx)
        if sx not in bound and n in sig.funs:
            out.add(n)
        return out
    if not sx:
        return out
    if sx[0] == "let":
        b2 = set(bound)
        for b in sx[1]:
            out |= symbols_of(b[1], sig, bound)
            b2.add(b[0])
        return out | symbols_of(sx[2], sig, frozenset(b2))
    if sx[0] == "!":
        return symbols_of(sx[1], sig, bound)
    for x in sx:
        out |= symbols_of(x, sig, bound)
    return out


def all_atoms(sx):
    if isinstance(sx, str):
        return {sx}
    out = set()
    for x in sx:
        out |= all_atoms(x)
    return out


INTERPRETED = {"true", "false", "not", "and", "or", "xor", "=>", "=", "distinct", "ite", "<", "<=", ">", ">=", "+", "-", "*", "/",
               "div", "mod", "abs", "to_real", "to_int", "let", "!"}


def option_tags(q, logic):
    o = q["opts"]
    tags = []
    for key, short in ((":interpolation-bool-algorithm", "bool-alg"), (":interpolation-euf-algorithm", "euf-alg"),
                       (":interpolation-lra-algorithm", "lra-alg"), (":proof-reduce", "reduce"), (":simplify-interpolants", "simplify")):
        v = o.get(key)
        if v is not None and v != "0":
            if short == "euf-alg" and logic != "QF_UF":
                continue
            if short == "lra-alg" and logic not in ("QF_LRA", "QF_LIA"):
                continue
            tags.append("%s=%s" % (short, v))
    if o.get(":interpolation-lra-algorithm") == "3":
        tags.append("lra-factor=%s" % (o.get(":interpolation-lra-factor") or '"1/2"').strip('"'))
    return tags


def prop_decide(sig, forms, maxvars=11):
    """Propositional formulas over <= maxvars declared Bool constants: decide satisfiability of the conjunction by evaluating
    it under EVERY assignment with the Coq-verified evaluator (one process, one request line per assignment).
    Returns ('agree', None) = unsatisfiable, ('refuted-certified', model text) = satisfiable, None = not applicable."""
    import itertools
    if any(args or res != "B" for (args, res) in sig.funs.values()) or sig.defs:
        return None
    forms = [sc.strip_named(f) for f in forms]
    occ = sorted(set().union(*[symbols_of(f, sig) for f in forms])) if forms else []
    if len(occ) > maxvars:
        return None
    el = Elab(sig)
    try:
        aw = " ".join(el.elab(f, {}, "B")[0] for f in forms)
        sw = smtlib.sig_wire(sig)
    except (ParseError, IndexError, KeyError, TypeError, ValueError):
        return None
    others = [n for n in sig.funs if n not in occ]
    fixed = " ".join("(def %d () B (b 0))" % sig.id_of(n) for n in others)
    lines, assigns = [], []
    for bits in itertools.product((0, 1), repeat=len(occ)):
        mw = "(model %s %s)" % (" ".join("(def %d () B (b %d))" % (sig.id_of(n), b) for n, b in zip(occ, bits)), fixed)
        lines.append("(check %s %s (asserts %s) (values ))" % (sw, mw, aw))
        assigns.append(bits)
    for attempt in range(40):
        try:
            rc, out = vlib.sh([sc.sem_exe()], input="\n".join(lines) + "\n", timeout=300)
            break
        except FileNotFoundError:
            import time
            time.sleep(3)
            sc._sem_exe = None
    else:
        return None
    res = out.strip().split("\n")
    if rc != 0 or len(res) != len(lines):
        return None
    n = len(forms)
    for bits, r in zip(assigns, res):
        m = re.search(r"asserts=([A-Z]*)", r)
        if not m or len(m.group(1)) != n or r.startswith("error") or set(m.group(1)) - set("TF"):
            return None
        if m.group(1) == "T" * n:
            return "refuted-certified", "(" + " ".join("(define-fun %s () Bool %s)" % (v, "true" if b else "false") for v, b in zip(occ, bits)) + ")"
    return "agree", None


class Judge:
    """Decides one script; reports through ctx. pid selects what is judged: 'C08' every interpolant's three conditions
    (+ rejected requests), 'C09' only requests with >= 3 groups: the three conditions per cumulative split + the path steps."""

    def __init__(self, ctx, pid):
        self.ctx, self.pid = ctx, pid
        self._z3cache = {}
        self._decls = []

    def unsat(self, sig, logic, decls, forms):
        if logic == "QF_BOOL":
            v = prop_decide(sig, forms)
            if v is not None:
                self.ctx.count("decided-by:exhaustive-verified-evaluation")
                return v
        self.ctx.count("decided-by:z3+cvc5(+verified-evaluator-on-sat)")
        lg = "QF_UF" if logic == "QF_BOOL" else logic
        for attempt in range(40):
            try:
                return sc.judge_unsat(sig, lg, decls, forms)
            except FileNotFoundError:
                # the shared evaluator binary is being rebuilt by a concurrent check (vlib.build_extracted): wait for it
                import time
                time.sleep(3)
                sc._sem_exe = None
        return sc.judge_unsat(sig, lg, decls, forms)

    def script(self, text, meta=None, origin="gen"):
        ctx, pid = self.ctx, self.pid
        try:
            hist = History(text)
        except (ParseError, IndexError, KeyError) as e:
            ctx.tie_broken("script-reading", "%s" % e, dict(script=text))
            return
        logic = (meta or {}).get("logic") or hist.logic
        R = run(text)
        if R["rc"] == -9:
            ctx.count("timeout")
        decls = sc.decl_lines(text)
        self._decls = decls
        status = None
        dead = False
        unsat_level = None          # deepest level at which an unsat answer was given and whose frame may since have been popped
        popped_unsat = False
        for q in hist.queries:
            k = q["k"]
            if unsat_level is not None and q["minlevel"] < unsat_level:
                popped_unsat = True
            q["after_popped_unsat"] = popped_unsat
            got = R["seg"].get(k)
            if got is None:
                if not dead:
                    dead = True
                    if R["rc"] == -9:
                        ctx.count("timeout-at:%s" % q["kind"])
                        continue
                    if q["kind"] == "get-interpolants" and status == "unsat" and k in R["started"]:
                        m = re.search(r"what\(\):\s*(.*)", R["err"])
                        msg = re.sub(r"[^A-Za-z ]", "", m.group(1))[:50].strip().replace(" ", "-") if m else "rc=%s" % R["rc"]
                        self.rejected(q, hist, logic, text, "crash:%s" % msg, R)
                    else:
                        ctx.count("solver-died-at:%s(rc=%s)" % (q["kind"], R["rc"]))
                continue
            try:
                sxs = smtlib.read_all(got)
            except ParseError:
                sxs, _ = smtlib.read_all_tolerant(got)
            if q["kind"] == "check-sat":
                status = next((s for s in reversed(sxs) if s in ("sat", "unsat", "unknown")), None)
                ctx.count("check-sat:%s" % status)
                if status == "unsat" and q["level"] > 0:
                    unsat_level = q["level"] if unsat_level is None else max(unsat_level, q["level"])
                continue
            # ---- get-interpolants
            groups = parse_groups(q["cmd"])
            names = {nm for (_, _, nm) in q["current"] if nm}
            if status != "unsat":
                ctx.count("request-not-in-unsat-state")
                continue
            if groups is None or len(groups) < 2 or any(nm not in names for gp in groups for nm in gp):
                ctx.count("request-outside-the-property(non-current name / other shape)")
                continue
            if len({nm for gp in groups for nm in gp}) != sum(len(gp) for gp in groups):
                ctx.count("request-outside-the-property(name repeated)")
                continue
            if pid == "C09" and len(groups) < 3:
                continue
            if not sxs:
                self.rejected(q, hist, logic, text, "no-output", R)
                continue
            ans = sxs[-1]
            if isinstance(ans, list) and ans and ans[0] == "error":
                self.rejected(q, hist, logic, text, "error:" + re.sub(r"[^A-Za-z ]", "", sx_str(ans[1] if len(ans) > 1 else ""))[:60].strip().replace(" ", "-"), R)
                continue
            if not isinstance(ans, list) or len(ans) != len(groups) - 1:
                self.report(q, hist, logic, text, "wrong-number-of-interpolants", groups,
                            "%d groups but the answer %s does not consist of %d formulas" % (len(groups), sx_str(ans)[:200], len(groups) - 1), {})
                continue
            self.interpolants(q, hist, logic, text, decls, groups, ans, origin)

    # -----------------------------------------------------------------------------------------
    def z3_unsat(self, logic, decls, forms):
        key = (logic, tuple(decls), tuple(sx_str(f) for f in forms))
        if key not in self._z3cache:
            lg = "QF_UF" if logic == "QF_BOOL" else logic
            a, _ = sc.ref_answer("z3", lg, decls, forms, timeout=30)
            if a == "unknown":      # a loaded machine: ask once more before giving up on the label
                a, _ = sc.ref_answer("z3", lg, decls, forms, timeout=60)
            self._z3cache[key] = a == "unsat"
        return self._z3cache[key]

    def tags(self, q, hist, logic, groups):
        """Labels that name the known root causes a violation may come from (they only select the known-finding entry;
        z3 is used to over-approximate "same hash-consed term" by logical equivalence)."""
        tags = []
        decls = self._decls

        def same(b1, b2):
            return b1 == b2 or self.z3_unsat(logic, decls, [["xor", b1, b2]])
        try:
            pred, want, causes = front_end_masks(q, groups, same, fixd=front_facts().get("variant") == "push-after")
            if pred != want:
                tags.append("front-mask-wrong(%s)" % "+".join(sorted(causes) or ["?"]))
        except (StopIteration, KeyError):
            tags.append("front-mask-unpredicted")
        # Logic::mkAnd folds a conjunction with complementary / constant members: the rebuilt group is no `and` any more
        by_name = {nm: sc.strip_named(t) for (_, t, nm) in q["current"] if nm}
        for gp in groups[:-1]:
            if len(gp) > 1:
                bodies = [by_name[nm] for nm in gp]
                if self.z3_unsat(logic, decls, bodies) or self.z3_unsat(logic, decls, [["not", ["and"] + bodies]]):
                    tags.append("and-group-folds")
                    break
        if q.get("dup_popped"):
            # FlaPartitionMap is keyed by the term: a term asserted twice at the same time has ONE partition index (the later one);
            # popping either assertion leaves a stale index / stale partition bits behind
            tags.append("dup-popped-stale-partition")
        if q.get("after_popped_unsat"):
            tags.append("after-popped-unsat")
        elif q["level"] > 0 or any(c[0] == "pop" for c in hist.cmds if isinstance(c, list) and c):
            tags.append("incr")
        return tags + option_tags(q, logic)

    def report(self, q, hist, logic, text, cond, groups, what, extra):
        tags = self.tags(q, hist, logic, groups)
        if re.search(r"\(declare-fun \S+ \([^)]*\bBool\b[^)]*\)", text):
            tags.append("bool-uf")      # the script uses uninterpreted symbols with Boolean arguments
        sig = "%s:%s:[%s]" % (cond, logic, ",".join(tags))
        rep = dict(script=text, request=sx_str(q["cmd"]), query_index=q["k"], options=q["opts"], tags=tags)
        rep.update(extra)
        self.ctx.violation(sig, "%s — %s (request %s, %s)" % (cond, what, sx_str(q["cmd"]), ",".join(tags) or "default options"), rep)

    def rejected(self, q, hist, logic, text, how, R):
        ctx = self.ctx
        groups = parse_groups(q["cmd"])
        ctx.case(key=(text, q["k"]), nontrivial=True, kind="rejected:%s" % logic,
                 sample=dict(script=text, request=sx_str(q["cmd"]), outcome=how))
        if logic not in IN_SCOPE:
            ctx.count("out-of-scope-logic:%s:%s" % (logic, how))      # e.g. QF_UFLRA: the abort is C18's finding
            return
        self.report(q, hist, logic, text, "request-rejected(%s)" % how, groups,
                    "a request over names of current assertions made in an unsat state was not answered with interpolants",
                    dict(stdout=R["out"][-1500:], stderr=R["err"][-800:], rc=R["rc"]))

    def interpolants(self, q, hist, logic, text, decls, groups, itps, origin):
        ctx, pid, sig = self.ctx, self.pid, q["sig"]
        cur = q["current"]
        by_name = {nm: (u, t) for (u, t, nm) in cur if nm}
        el = Elab(sig)
        accA = []
        prev = None
        for i, I in enumerate(itps):
            accA += [by_name[nm][0] for nm in groups[i]]
            A = [t for (u, t, _) in cur if u in accA]
            B = [t for (u, t, _) in cur if u not in accA]
            split = "%s|rest" % "+".join("+".join(gp) for gp in groups[:i + 1])
            key = (text, q["k"], i)
            verdicts = {}
            # -- readable over declared symbols?
            try:
                w, s = el.elab(I, {}, "B")
                readable = s == "B"
                why = "sort %s" % (s,)
            except (ParseError, IndexError, KeyError, TypeError) as e:
                readable, why = False, str(e)
            symsA = set().union(*[symbols_of(a, sig) for a in A]) if A else set()
            symsB = set().union(*[symbols_of(b, sig) for b in B]) if B else set()
            if not readable:
                unknown = sorted(x for x in all_atoms(I) if x not in INTERPRETED and smtlib.unquote(x) not in sig.funs
                                 and not smtlib.NUM.match(x) and not smtlib.DEC.match(x))
                ctx.case(key=key, nontrivial=True, kind="itp:%s:unreadable" % logic)
                self.report(q, hist, logic, text, "foreign-symbol", groups,
                            "interpolant %d %s is not a Bool term over the declared symbols (%s; unknown: %s)" % (i + 1, sx_str(I)[:300], why, unknown),
                            dict(interpolant=sx_str(I), split=split))
                prev = None
                continue
            symsI = symbols_of(I, sig)
            foreign = sorted(symsI - (symsA & symsB))
            verdicts["symbols"] = "ok" if not foreign else "foreign:%s" % foreign
            if foreign:
                self.report(q, hist, logic, text, "foreign-symbol", groups,
                            "interpolant %d %s mentions %s, not shared by A and B (A has %s, B has %s)" % (i + 1, sx_str(I)[:300], foreign, sorted(symsA), sorted(symsB)),
                            dict(interpolant=sx_str(I), split=split, foreign=foreign))
            v1, d1 = self.unsat(sig, logic, decls, A + [["not", I]])
            v2, d2 = self.unsat(sig, logic, decls, [I] + B)
            verdicts["A/\\~I"] = v1
            verdicts["I/\\B"] = v2
            for cond, v, d, forms in (("A-not-implies-I", v1, d1, A + [["not", I]]), ("I-and-B-sat", v2, d2, [I] + B)):
                if v in ("refuted-certified", "refuted-oracles"):
                    self.report(q, hist, logic, text, cond + ("" if v == "refuted-certified" else "(oracles-only)"), groups,
                                "interpolant %d = %s for the split %s: %s is satisfiable (%s)" % (
                                    i + 1, sx_str(I)[:300], split, "A /\\ not I" if cond[0] == "A" else "I /\\ B",
                                    "model confirmed by the verified evaluator" if v == "refuted-certified" else "z3 and cvc5 agree, model not confirmed"),
                                dict(interpolant=sx_str(I), split=split, A=[sx_str(sc.strip_named(a)) for a in A], B=[sx_str(sc.strip_named(b)) for b in B],
                                     model=d, satisfiable_set=[sx_str(sc.strip_named(f)) for f in forms]))
                elif v == "undecided":
                    ctx.count("undecided:%s:%s" % (cond, logic))
            if pid == "C09" and prev is not None:
                G = [by_name[nm][1] for nm in groups[i]]
                v3, d3 = self.unsat(sig, logic, decls, [prev] + G + [["not", I]])
                verdicts["path"] = v3
                if v3 in ("refuted-certified", "refuted-oracles"):
                    self.report(q, hist, logic, text, "path-step-fails" + ("" if v3 == "refuted-certified" else "(oracles-only)"), groups,
                                "I_%d /\\ G_%d /\\ not I_%d is satisfiable: I_%d = %s, G_%d = %s, I_%d = %s" % (
                                    i, i + 1, i + 1, i, sx_str(prev)[:200], i + 1, " ".join(groups[i]), i + 1, sx_str(I)[:200]),
                                dict(previous=sx_str(prev), next=sx_str(I), moved=[sx_str(sc.strip_named(g)) for g in G], model=d3))
                elif v3 == "undecided":
                    ctx.count("undecided:path:%s" % logic)
            nontriv = I not in ("true", "false")
            ctx.case(key=key, nontrivial=nontriv,
                     kind="itp:%s:%s%s" % (logic, "k=%d" % len(groups), ":incr" if q["level"] > 0 else ""),
                     sample=dict(script=text, request=sx_str(q["cmd"]), split=split, interpolant=sx_str(I), verdicts=verdicts, options=q["opts"]))
            ctx.count("itp-shape:%s" % ("const" if not nontriv else "atom" if not any(isinstance(x, list) and x and x[0] in ("and", "or", "not") for x in [I]) else "compound"))
            prev = I
