"""C29: generator of well-sorted SMT-LIB scripts that fall OUTSIDE the fragment of the logic they declare.

gen(rng) -> dict(text, logic, cls, twin_logic or None, atoms=[...], marks)
  text     : the script; after every command an  (echo "@@k")  marker (k = command index) so that the
             responses can be attributed to commands (lib: split_by_marks)
  cls      : the kind of out-of-fragment construct (stable name, part of violation signatures)
  twin     : the same script under the logic that embeds it (QF_IDL -> QF_LIA, QF_RDL -> QF_LRA,
             QF_UF -> QF_UFLIA ...), None if this solver has no such logic (non-linear, mixed)
  dl_atoms : for difference logics, the arithmetic atoms as SMT-LIB text (fed to the parse-level tie)
Every random choice comes from the rng passed in.
"""


def lit(n, real=False):
    s = "%d" % abs(n)
    return "(- %s)" % s if n < 0 else s


def with_marks(cmds):
    out = []
    for k, c in enumerate(cmds):
        out.append(c)
        out.append('(echo "@@%d")' % k)
    return "\n".join(out) + "\n"


def split_by_marks(stdout, ncmds):
    """responses[k] = text printed by command k (between marker k-1 and marker k); None if misaligned."""
    res, cur, k = [], [], 0
    for line in stdout.split("\n"):
        if line.strip() == "@@%d" % k:
            res.append("\n".join(cur).strip())
            cur = []
            k += 1
        else:
            cur.append(line)
    if k != ncmds:
        return None, "\n".join(cur).strip()
    return res, "\n".join(cur).strip()


# ---------------------------------------------------------------------------------------------
# difference logics
# ---------------------------------------------------------------------------------------------
DL_CLASSES = ["sum", "scaled", "scaled-single", "three", "both-sides", "four", "eq-sum", "eq-scaled", "diseq-sum", "in-or", "const-first"]


def dl_proper(r, vs):
    x, y = r.sample(vs, 2)
    k = r.randint(-4, 4)
    form = r.random()
    if form < 0.5:
        return "(%s (- %s %s) %s)" % (r.choice(["<=", "<", ">=", ">"]), x, y, lit(k))
    if form < 0.8:
        return "(%s %s %s)" % (r.choice(["<=", ">=", "<", ">"]), x, lit(k))
    return "(%s %s (+ %s %s))" % (r.choice(["<=", ">="]), x, y, lit(k))


def dl_oof_atom(r, vs, cls):
    """An atom of class cls over the variables vs (>= 4 names)."""
    x, y, z, w = r.sample(vs, 4)
    k = r.randint(-3, 3)
    rel = r.choice(["<=", ">=", "<", ">"])
    c = r.choice([2, 2, 3, -2])
    if cls == "sum":
        return "(%s (+ %s %s) %s)" % (rel, x, y, lit(k))
    if cls == "scaled":
        return r.choice(["(%s (- (* %s %s) %s) %s)" % (rel, lit(c), x, y, lit(k)),
                         "(%s (- %s (* %s %s)) %s)" % (rel, x, lit(c), y, lit(k)),
                         "(%s (* %s %s) (+ %s %s))" % (rel, lit(c), x, y, lit(k))])
    if cls == "const-first":
        # the constant of the product is created before the variable is used in it (other child order)
        return "(%s (- (* %s %s) %s) %s)" % (rel, lit(c), x, y, lit(k))
    if cls == "scaled-single":
        return "(%s (* %s %s) %s)" % (rel, lit(c), x, lit(k))
    if cls == "three":
        return r.choice(["(%s (- (+ %s %s) %s) %s)" % (rel, x, z, y, lit(k)),
                         "(%s (+ %s %s %s) %s)" % (rel, x, y, z, lit(k)),
                         "(%s (- %s %s %s) %s)" % (rel, x, y, z, lit(k))])
    if cls == "both-sides":
        return "(%s (+ %s %s) (+ %s %s))" % (rel, x, lit(r.randint(-3, 3)), y, lit(k))
    if cls == "four":
        return "(%s (- %s %s) (- %s %s))" % (rel, x, y, z, w)
    if cls == "eq-sum":
        return "(= (+ %s %s) %s)" % (x, y, lit(k))
    if cls == "eq-scaled":
        return r.choice(["(= (* 2 %s) (+ %s %s))" % (x, y, lit(k)), "(= (- %s %s) (- %s %s))" % (x, y, y, z)])
    if cls == "diseq-sum":
        return r.choice(["(distinct (+ %s %s) %s)" % (x, y, lit(k)), "(not (= (* 2 %s) %s))" % (x, y)])
    if cls == "in-or":
        return "(or (%s (+ %s %s) %s) (%s (- %s %s) %s))" % (rel, x, y, lit(k), r.choice(["<=", ">="]), x, z, lit(r.randint(-3, 3)))
    raise ValueError(cls)


def dl_tight(r, vs, cls):
    """Families built to be unsatisfiable (or just satisfiable) only because of the out-of-fragment atom."""
    x, y, z = r.sample(vs, 3)
    a, b = r.randint(-2, 3), r.randint(-2, 3)
    d = r.choice([-1, 0])       # d = -1: unsatisfiable, d = 0: satisfiable on the boundary
    if cls == "sum":
        return ["(<= (+ %s %s) %s)" % (x, y, lit(a + b + d)), "(>= %s %s)" % (x, lit(a)), "(>= %s %s)" % (y, lit(b))]
    if cls in ("scaled", "const-first"):
        pre = ["(> %s %s)" % (z, lit(2))] if cls == "const-first" else []
        return pre + ["(<= (- (* 2 %s) %s) %s)" % (x, y, lit(2 * a - b + d)), "(>= %s %s)" % (x, lit(a)), "(<= %s %s)" % (y, lit(b))]
    if cls == "three":
        return ["(<= (- (+ %s %s) %s) %s)" % (x, z, y, lit(a + 1 - b + d)), "(>= %s %s)" % (x, lit(a)), "(>= %s 1)" % z, "(<= %s %s)" % (y, lit(b))]
    return None


def gen_dl(r, logic=None, cls=None):
    logic = logic or r.choice(["QF_IDL", "QF_IDL", "QF_RDL"])
    sort = "Int" if logic == "QF_IDL" else "Real"
    cls = cls or r.choice(DL_CLASSES)
    vs = ["x", "y", "z", "w"]
    cmds = ["(set-option :produce-models true)", "(set-logic %s)" % logic] + ["(declare-fun %s () %s)" % (v, sort) for v in vs]
    body = None
    if r.random() < 0.45:
        body = dl_tight(r, vs, cls)
    if body is None:
        body = []
        if cls == "const-first":
            body.append("(> %s %s)" % (r.choice(vs), lit(r.choice([2, 3]))))   # creates the constant first ... only if same value
        n_oof = r.choice([1, 1, 2])
        body += [dl_oof_atom(r, vs, cls) for _ in range(n_oof)]
        body += [dl_proper(r, vs) for _ in range(r.randint(1, 3))]
        if cls != "const-first":
            r.shuffle(body)
    cmds += ["(assert %s)" % b for b in body] + ["(check-sat)", "(get-model)"]
    twin = {"QF_IDL": "QF_LIA", "QF_RDL": "QF_LRA"}[logic]
    return dict(cmds=cmds, logic=logic, cls="non-dl-atom:" + cls, twin=twin, family="dl", oracle_logic="ALL", body=body)


# ---------------------------------------------------------------------------------------------
# QF_UF with arithmetic
# ---------------------------------------------------------------------------------------------
def gen_uf_arith(r):
    cls = r.choice(["int-var", "int-atom", "real-atom", "arith-in-uf"])
    cmds = ["(set-option :produce-models true)", "(set-logic QF_UF)", "(declare-sort U 0)", "(declare-fun a () U)", "(declare-fun b () U)",
            "(declare-fun f (U) U)", "(declare-fun p () Bool)"]
    k = r.randint(0, 3)
    if cls == "int-var":
        cmds += ["(declare-fun n () Int)", "(assert (= n n))"]
    elif cls == "int-atom":
        cmds += ["(declare-fun n () Int)", "(declare-fun m () Int)", "(assert (> n %d))" % k, "(assert (< (+ n m) %d))" % k]
    elif cls == "real-atom":
        cmds += ["(declare-fun q () Real)", "(assert (and (> q %d.5) (< q %d.0)))" % (k, k)]
    else:
        cmds += ["(declare-fun g (Int) U)", "(declare-fun n () Int)", "(assert (not (= (g (+ n 1)) (g (+ 1 n)))))"]
    cmds += ["(assert (or p (= (f a) b)))", "(check-sat)", "(get-model)"]
    return dict(cmds=cmds, logic="QF_UF", cls="arith-in-uf:" + cls, twin="QF_UFLIA" if cls != "real-atom" else "QF_UFLRA", family="uf",
                oracle_logic="ALL", body=[])


# ---------------------------------------------------------------------------------------------
# linear logics: non-linear terms, mixing, wrong-sort operators
# ---------------------------------------------------------------------------------------------
def gen_la(r):
    logic = r.choice(["QF_LRA", "QF_LIA"])
    real = logic == "QF_LRA"
    s = "Real" if real else "Int"
    k, k2 = r.randint(1, 4), r.randint(-3, 3)
    common = ["nl-product", "nl-square", "nl-product-sum", "mixed-decl", "to-conv"]
    cls = r.choice(common + (["nl-div-var", "int-ops-in-lra", "int-var-in-lra"] if real else ["nl-div-var", "nl-mod-var", "decimal-in-lia", "real-var-in-lia", "real-div-in-lia"]))
    cmds = ["(set-option :produce-models true)", "(set-logic %s)" % logic] + ["(declare-fun %s () %s)" % (v, s) for v in "xyz"]
    one = "1.0" if real else "1"
    extra = []
    if cls == "nl-product":
        body = ["(%s (* x y) %s)" % (r.choice([">", "<", "="]), lit(k)), "(> x %s)" % lit(k2)]
    elif cls == "nl-square":
        body = ["(< (* x x) %s)" % lit(-k)]            # unsatisfiable
    elif cls == "nl-product-sum":
        body = ["(= (* x (+ y %s)) %s)" % (one, lit(k)), "(> y %s)" % lit(k2)]
    elif cls == "nl-div-var":
        body = ["(> (%s x y) %s)" % ("/" if real else "div", lit(k)), "(> y 0)"]
    elif cls == "nl-mod-var":
        body = ["(= (mod x y) %s)" % lit(k), "(> y %s)" % lit(k)]
    elif cls == "mixed-decl":
        other = "Int" if real else "Real"
        extra = ["(declare-fun u () %s)" % other]
        body = ["(> u %s)" % lit(k), "(< u %s)" % lit(k + 1)]       # Int u: unsatisfiable; Real u: satisfiable
    elif cls == "to-conv":
        if real:
            body = ["(> (to_real (to_int x)) %s)" % lit(k), "(< x %s)" % lit(k)]
        else:
            body = ["(> (to_real x) %d.5)" % k, "(< (to_real x) %d.75)" % k]      # unsatisfiable over Int
    elif cls == "int-ops-in-lra":
        body = ["(= (mod (to_int x) 2) 1)", "(= x %s)" % lit(2 * k)]
    elif cls == "int-var-in-lra":
        extra = ["(declare-fun n () Int)"]
        body = ["(> n %s)" % lit(k), "(< n %s)" % lit(k + 1)]
    elif cls == "decimal-in-lia":
        body = ["(> x %d.5)" % k, "(< x %d.75)" % k]
    elif cls == "real-var-in-lia":
        extra = ["(declare-fun q () Real)"]
        body = ["(> (* 2.0 q) %s.0)" % (2 * k), "(< (* 2.0 q) %s.0)" % (2 * k + 2), "(> x %d)" % k2]
    elif cls == "real-div-in-lia":
        body = ["(= (/ x 2) %d)" % k]
    else:
        raise ValueError(cls)
    cmds += extra + ["(assert %s)" % b for b in body] + ["(check-sat)", "(get-model)"]
    return dict(cmds=cmds, logic=logic, cls=("nonlinear:" if cls.startswith("nl-") else "mixing:") + cls, twin=None, family="la",
                oracle_logic="ALL", body=body)


# ---------------------------------------------------------------------------------------------
# terms that are not plain variables inside arithmetic atoms of a restricted logic: applications of
# uninterpreted functions / predicates (the logic has no UF), ite terms, div / mod by a constant
# ---------------------------------------------------------------------------------------------
def gen_opaque(r):
    logic = r.choice(["QF_RDL", "QF_IDL", "QF_LRA", "QF_LIA"])
    real = logic in ("QF_RDL", "QF_LRA")
    dl = "DL" in logic
    s = "Real" if real else "Int"
    kinds = ["uf-app", "uf-app", "uf-pred", "ite"] + ([] if real else ["divmod"])
    cls = r.choice(kinds)
    x, y, z = r.sample(["x", "y", "z", "w"], 3)
    cmds = ["(set-option :produce-models true)", "(set-logic %s)" % logic] + ["(declare-fun %s () %s)" % (v, s) for v in "xyzw"]
    k = r.randint(-2, 3)
    eq = r.choice([["(<= %s %s)" % (x, y), "(<= %s %s)" % (y, x)], ["(<= (- %s %s) 0)" % (x, y), "(>= (- %s %s) 0)" % (x, y)]])
    twin = None
    if cls == "uf-app":
        cmds.append("(declare-fun f (%s) %s)" % (s, s))
        form = r.random()
        if form < 0.45:        # unsatisfiable through congruence only
            body = eq + ["(%s (f %s) (f %s))" % (r.choice(["<", ">"]), x, y)]
        elif form < 0.7:       # f(x) - f(y) bounded both ways, x = y: unsat through congruence
            body = eq + ["(>= (- (f %s) (f %s)) %s)" % (x, y, lit(abs(k) + 1))]
        elif form < 0.85:      # satisfiable
            body = eq + ["(<= (- (f %s) %s) %s)" % (x, z, lit(k)), "(>= (f %s) %s)" % (y, lit(k))]
        else:
            body = ["(<= (- (f %s) (f %s)) %s)" % (x, y, lit(k)), "(< (- %s %s) %s)" % (x, y, lit(k))]
        twin = {"QF_RDL": "QF_UFRDL", "QF_IDL": "QF_UFIDL", "QF_LRA": "QF_UFLRA", "QF_LIA": "QF_UFLIA"}[logic]
    elif cls == "uf-pred":
        cmds.append("(declare-fun p (%s) Bool)" % s)
        body = eq + ["(p %s)" % x, "(not (p %s))" % y] if r.random() < 0.6 else eq + ["(p %s)" % x, "(p %s)" % z, "(< %s %s)" % (z, lit(k))]
        twin = {"QF_RDL": "QF_UFRDL", "QF_IDL": "QF_UFIDL", "QF_LRA": "QF_UFLRA", "QF_LIA": "QF_UFLIA"}[logic]
    elif cls == "ite":
        cmds.append("(declare-fun b () Bool)")
        d = r.choice([-1, 0])
        body = ["(<= (- (ite b %s %s) %s) %s)" % (x, y, z, lit(k)), "(>= (- %s %s) %s)" % (x, z, lit(k + 1 + d)), "(>= (- %s %s) %s)" % (y, z, lit(k + 1 + d))]
        twin = {"QF_RDL": "QF_LRA", "QF_IDL": "QF_LIA"}.get(logic)
    else:
        c = r.choice([2, 3])
        body = ["(%s (- (%s %s %d) %s) %s)" % (r.choice(["<=", ">="]), r.choice(["div", "mod"]), x, c, y, lit(k)), "(>= %s %s)" % (x, lit(5 * k)), "(<= %s %s)" % (y, lit(-k))]
        twin = {"QF_IDL": "QF_LIA"}.get(logic)
    if r.random() < 0.5:
        body.append(dl_proper(r, ["x", "y", "z", "w"]))
    cmds += ["(assert %s)" % b for b in body] + ["(check-sat)", "(get-model)"]
    return dict(cmds=cmds, logic=logic, cls="opaque:" + cls, twin=twin, family="opaque", oracle_logic="ALL", body=body)


# ---------------------------------------------------------------------------------------------
# multi-step variants: the same (possibly offending) atoms reach the solver more than once
# ---------------------------------------------------------------------------------------------
def multistep(r, d):
    """Rewrites d['cmds'] (prelude, assertions, one check-sat, get-model) into a script with several check-sats."""
    cmds = d["cmds"]
    first = min(k for k, c in enumerate(cmds) if c.startswith("(assert"))
    pre, asserts = cmds[:first], [c for c in cmds[first:] if c.startswith("(assert")]
    if not asserts:
        return d
    kind = r.choice(["check2", "check3", "push-pop-again", "pop-check", "grow"])
    if kind == "check2":
        body = asserts + ["(check-sat)", "(check-sat)", "(get-model)"]
    elif kind == "check3":
        cut = r.randint(1, len(asserts))
        body = asserts[:cut] + ["(check-sat)"] + asserts[cut:] + ["(check-sat)", "(check-sat)", "(get-model)"]
    elif kind == "push-pop-again":
        cut = r.randint(0, len(asserts) - 1)
        base, frame = asserts[:cut], asserts[cut:]
        body = base + ["(push 1)"] + frame + ["(check-sat)", "(pop 1)", "(check-sat)", "(push 1)"] + frame + ["(check-sat)", "(get-model)"]
    elif kind == "pop-check":
        cut = r.randint(0, len(asserts) - 1)
        body = asserts[:cut] + ["(push 1)"] + asserts[cut:] + ["(check-sat)", "(pop 1)", "(check-sat)", "(get-model)"]
    else:
        body = []
        for a in asserts:
            body += [a, "(check-sat)"]
        body += ["(get-model)"]
    d = dict(d)
    d["cmds"] = pre + body
    d["steps"] = kind
    return d


def gen(r):
    k = r.random()
    d = gen_dl(r) if k < 0.45 else (gen_opaque(r) if k < 0.65 else (gen_uf_arith(r) if k < 0.72 else gen_la(r)))
    if r.random() < 0.4:
        d = multistep(r, d)
    d["text"] = with_marks(d["cmds"])
    return d


def twin_text(d):
    cmds = [("(set-logic %s)" % d["twin"]) if c.startswith("(set-logic") else c for c in d["cmds"]]
    return cmds, with_marks(cmds)
