"""Generator of unsat-core scripts for C06 / C07 (owner: wp-cores).

Scripts are built from small *contradiction kits* (sets of formulas that are jointly unsatisfiable, each proper
subset satisfiable), *redundant* formulas (weaker variants, duplicates under other names, consequences) and random
*noise* from lib/scriptgen.Gen, spread over named and unnamed assertions, optionally over push/pop histories.
All declarations come first.  Every random choice derives from the rng passed in.

gen_core_script(rng, ...) -> (text, meta).  meta: logic, minimal, full, incremental, features (set of strings).
"""
import scriptgen

LOGICS = ["QF_UF", "QF_LRA", "QF_LIA", "QF_BOOL"]


class Kits:
    def __init__(self, rng, g):
        self.r, self.g = rng, g

    def lit(self, v):
        return self.g.lit(v)

    # ---- propositional
    def chain(self):
        r = self.r
        vs = r.sample(self.g.boolvars, min(len(self.g.boolvars), r.randint(2, 4)))
        out = [vs[0]]
        for a, b in zip(vs, vs[1:]):
            out.append(r.choice(["(=> %s %s)", "(or (not %s) %s)"]) % (a, b))
        out.append("(not %s)" % vs[-1])
        return out

    def cases(self):
        p, q = self.r.sample(self.g.boolvars, 2)
        return ["(or %s %s)" % (p, q), "(or %s (not %s))" % (p, q), "(or (not %s) %s)" % (p, q), "(or (not %s) (not %s))" % (p, q)]

    def parity(self):
        p, q = self.r.sample(self.g.boolvars, 2)
        return ["(xor %s %s)" % (p, q), "(= %s %s)" % (p, q)]

    # ---- arithmetic
    def cycle(self):
        r = self.r
        vs = r.sample(self.g.numvars, min(len(self.g.numvars), r.randint(2, 3)))
        out = []
        for a, b in zip(vs, vs[1:]):
            out.append(r.choice(["(< %s %s)" % (a, b), "(> %s %s)" % (b, a), "(<= (+ %s 1) %s)" % (a, b)]))
        out.append("(<= %s %s)" % (vs[-1], vs[0]))
        return out

    def bounds(self):
        r = self.r
        v = r.choice(self.g.numvars)
        c = r.randint(-20, 20)
        d = c + r.randint(0, 6)
        return ["(< %s %s)" % (v, self.lit(c)), r.choice(["(> %s %s)", "(>= %s %s)"]) % (v, self.lit(d))]

    def weaker_bounds(self, kit):
        """redundant consequences of a bounds kit"""
        import re
        out = []
        for f in kit:
            m = re.match(r"^\((<|>|>=) (\w+) (.*)\)$", f)
            if not m:
                continue
            op, v, c = m.groups()
            n = int(c.replace("(- ", "-").replace(")", "").replace(".0", ""))
            k = self.r.randint(1, 9)
            out.append("(%s %s %s)" % (op, v, self.lit(n + k if op == "<" else n - k)))
        return out

    def sum(self):
        r = self.r
        if len(self.g.numvars) < 2:
            return self.bounds()
        a, b = r.sample(self.g.numvars, 2)
        c = r.randint(-5, 10)
        c1 = r.randint(-3, 8)
        c2 = c - c1 + r.randint(0, 3)
        return ["(= (+ %s %s) %s)" % (a, b, self.lit(c)), "(> %s %s)" % (a, self.lit(c1)), "(>= %s %s)" % (b, self.lit(c2))]

    def int_gap(self):
        v = self.r.choice(self.g.numvars)
        c = self.r.randint(-4, 4)
        return self.r.choice([["(> %s %s)" % (v, self.lit(c)), "(< %s %s)" % (v, self.lit(c + 1))],
                              ["(= (+ %s %s) %s)" % (v, v, self.lit(2 * c + 1))] + ["(>= %s %s)" % (v, self.lit(c - 3))]])

    # ---- uninterpreted functions
    def congr(self):
        r = self.r
        vs = r.sample(self.g.uvars, min(len(self.g.uvars), r.randint(2, 3)))
        out = ["(= %s %s)" % (a, b) for a, b in zip(vs, vs[1:])]
        f = self.g.ufuns[0][0]
        if self.g.upreds and r.random() < 0.4:
            out += ["(q %s)" % vs[0], "(not (q %s))" % vs[-1]]
        else:
            out.append(r.choice(["(distinct (%s %s) (%s %s))", "(not (= (%s %s) (%s %s)))"]) % (f, vs[0], f, vs[-1]))
        return out

    # ---- kits that need search (proof cores with redundancy)
    def php(self):
        """3 pigeons, 2 holes over the extra Boolean variables x<i><j>; 9 clauses"""
        x = lambda i, j: "x%d%d" % (i, j)
        out = ["(or %s %s)" % (x(i, 1), x(i, 2)) for i in (1, 2, 3)]
        for j in (1, 2):
            for a, b in ((1, 2), (1, 3), (2, 3)):
                out.append(self.r.choice(["(or (not %s) (not %s))", "(not (and %s %s))", "(=> %s (not %s))"]) % (x(a, j), x(b, j)))
        return out

    def php_red(self):
        x = lambda i, j: "x%d%d" % (i, j)
        r = self.r
        out = []
        for _ in range(r.randint(1, 3)):
            i, k = r.sample((1, 2, 3), 2)
            out.append(r.choice(["(or %s %s %s)" % (x(i, 1), x(i, 2), x(k, r.choice((1, 2)))),
                                 "(or (not %s) (not %s) %s)" % (x(i, 1), x(k, 1), x(i, 2)),
                                 "(=> %s %s)" % (x(i, 1), "(not %s)" % x(k, 1))]))
        return out

    def disj_arith(self):
        r = self.r
        v = r.choice(self.g.numvars)
        c = r.randint(-10, 5)
        d = c + r.randint(2, 8)
        out = ["(or (<= %s %s) (>= %s %s))" % (v, self.lit(c), v, self.lit(d)), "(> %s %s)" % (v, self.lit(c)), "(< %s %s)" % (v, self.lit(d))]
        if len(self.g.numvars) > 1 and r.random() < 0.6:
            w = r.choice([u for u in self.g.numvars if u != v])
            out[1] = "(> %s %s)" % (v, w)
            out.append("(>= %s %s)" % (w, self.lit(c)))
        return out

    def disj_red(self, kit):
        r = self.r
        v = r.choice(self.g.numvars)
        return ["(or (< %s %s) (> %s %s) %s)" % (v, self.lit(r.randint(-30, -11)), v, self.lit(r.randint(11, 30)), r.choice(self.g.boolvars)),
                "(or %s (<= %s %s))" % (r.choice(self.g.boolvars), v, self.lit(r.randint(10, 30)))][: r.randint(1, 2)]

    def diamond(self):
        """two alternative equality paths a=b=c / a=d=c and f(a) != f(c)"""
        r = self.r
        if len(self.g.uvars) < 3:
            return self.congr()
        vs = r.sample(self.g.uvars, len(self.g.uvars))
        a, b, c = vs[:3]
        d = vs[3] if len(vs) > 3 else "(%s %s)" % (self.g.ufuns[0][0], b)
        f = self.g.ufuns[0][0]
        return ["(= %s %s)" % (a, b), "(= %s %s)" % (b, c), "(= %s %s)" % (a, d), "(= %s %s)" % (d, c),
                "(not (= (%s %s) (%s %s)))" % (f, a, f, c)]

    def kit(self):
        r, g = self.r, self.g
        opts = [self.chain, self.cases, self.parity, self.chain, self.php]
        if g.num:
            opts += [self.cycle, self.bounds, self.bounds, self.sum, self.disj_arith, self.disj_arith]
            if g.num == "Int":
                opts += [self.int_gap]
        if g.usort:
            opts += [self.congr, self.congr, self.diamond, self.diamond]
        fn = r.choice(opts)
        k = fn()
        red = []
        if fn == self.bounds and r.random() < 0.7:
            red = self.weaker_bounds(k) + (self.weaker_bounds(k) if r.random() < 0.5 else [])
        if fn == self.php and r.random() < 0.7:
            red = self.php_red()
        if fn == self.disj_arith and r.random() < 0.7:
            red = self.disj_red(k)
        return k, red


def nonbool_ite(g, rng):
    """an atom containing a non-Boolean ite (IteHandler rewrites the top-level formula)"""
    b = rng.choice(g.boolvars)
    if g.num:
        x, y = (rng.sample(g.numvars, 2) if len(g.numvars) > 1 else (g.numvars[0], g.numvars[0]))
        return "(%s %s (ite %s %s (+ %s 1)))" % (rng.choice(["=", "<=", "<"]), x, b, y, y)
    if g.usort:
        x, y, z = (rng.sample(g.uvars, 3) if len(g.uvars) > 2 else (g.uvars[0], g.uvars[1], g.uvars[0]))
        return "(= %s (ite %s %s %s))" % (x, b, y, z)
    return None


def nestings(r, parts):
    """the same conjunction in syntactically different shapes that construction / preprocessing bring to one form
    (nested and, reordered arguments, neutral conjuncts, double negation)"""
    parts = list(parts)
    out = []
    if len(parts) == 2:
        a, b = parts
        out = ["(and %s %s)" % (a, b), "(and %s %s)" % (b, a), "(and %s (and %s true))" % (a, b), "(and (and %s %s) %s)" % (a, b, a),
               "(not (not (and %s %s)))" % (a, b), "(and %s %s %s)" % (a, b, b)]
    else:
        a, b, c = parts[:3]
        out = ["(and %s (and %s %s))" % (a, b, c), "(and (and %s %s) %s)" % (a, b, c), "(and %s %s %s)" % (c, b, a),
               "(and %s %s %s)" % (a, b, c), "(and (and %s %s) (and %s %s))" % (a, b, b, c), "(not (not (and %s (and %s %s))))" % (a, b, c),
               "(and %s (and %s (and %s true)))" % (a, b, c)]
    return out


def gen_directed(rng, kind, logic, minimal, full):
    """Directed histories (details randomised):
    two-names     one term under several names of different lifetime: named at level 0, named again on a subterm / at the top
                  of an assertion inside pushed levels, pops in between, a core requested after each pop that needs the term;
    reassert      a conjunction is asserted, checked and popped, then the same or a differently shaped conjunction with the same
                  flattened form is asserted again and needed for the refutation;
    late          assertions added AFTER an unsat answer (same level or in a level pushed on top) that make a member of the
                  earlier core redundant, followed by a new check-sat / get-unsat-core."""
    r = rng
    g = scriptgen.Gen(r, logic, big=False, divmod=False)
    K = Kits(r, g)
    feats = {"directed:" + kind}
    lines = ["(set-option :produce-unsat-cores true)"]
    if minimal:
        lines.append("(set-option :minimal-unsat-cores true)")
    if full:
        lines.append("(set-option :print-cores-full true)")
    lines.append("(set-logic %s)" % ("QF_UF" if logic == "QF_BOOL" else logic))
    lines += g.decls
    fill = ["x%d%d" % (i, j) for i in (1, 2, 3) for j in (1, 2)]
    lines += ["(declare-fun %s () Bool)" % x for x in fill]
    cnt = [0]

    def fresh(prefix="n"):
        cnt[0] += 1
        return "%s%d" % (prefix, cnt[0])

    def named(f, p=0.85):
        return "(assert (! %s :named %s))" % (f, fresh()) if r.random() < p else "(assert %s)" % f

    def query(twice=0.2):
        lines.append("(check-sat)")
        lines.append("(get-unsat-core)")
        if r.random() < twice:
            lines.append("(get-unsat-core)")

    def usable_kit():
        for _ in range(30):
            k, _red = K.kit()
            if 2 <= len(k) <= 6 and not any(x.startswith("x") and x[1:].isdigit() for f in k for x in f.replace("(", " ").replace(")", " ").split()):
                return k
        return K.chain()

    kit = usable_kit()
    r.shuffle(kit)
    if kind == "two-names":
        last = kit[-1]
        base = kit[:-1]
        for f in base:
            lines.append("(assert (! %s :named %s))" % (f, fresh("base")))
        if r.random() < 0.5:
            lines.append("(assert %s)" % r.choice(fill))
        if r.random() < 0.4:
            lines.append("(check-sat)")
        depth = 0
        for _round in range(r.randint(1, 3)):
            npush = r.randint(1, 2)
            for _ in range(npush):
                lines.append("(push 1)")
                depth += 1
                for f in r.sample(base, r.randint(1, len(base))):
                    q = r.choice(fill)
                    shape = r.random()
                    if shape < 0.3:
                        lines.append("(assert (or (not (! %s :named %s)) %s))" % (f, fresh("inner"), q))
                    elif shape < 0.55:
                        lines.append("(assert (! (or %s (! %s :named %s)) :named %s))" % (q, f, fresh("inner"), fresh()))
                    elif shape < 0.75:
                        lines.append("(assert (=> %s (! %s :named %s)))" % (q, f, fresh("inner")))
                    elif shape < 0.9:
                        lines.append("(assert (! (and (! %s :named %s) %s) :named %s))" % (f, fresh("inner"), q, fresh()))
                    else:
                        lines.append("(assert (! %s :named %s))" % (f, fresh("again")))      # the same term asserted again: second top-level name
                        feats.add("term-asserted-again-in-push")
            if r.random() < 0.5:
                # unsatisfiable inside the pushed levels as well
                lines.append(named(last))
                query()
            elif r.random() < 0.5:
                lines.append("(check-sat)")
            n = r.randint(1, depth)
            lines.append("(pop %d)" % n)
            depth -= n
            if depth == 0 or r.random() < 0.6:
                lines.append("(push 1)")
                depth += 1
                lines.append(named(last, 0.9))
                query()
                lines.append("(pop 1)")
                depth -= 1
        if depth:
            lines.append("(pop %d)" % depth)
        lines.append(named(last, 0.9))
        query(0.4)
    elif kind == "reassert":
        # conjuncts: one or two kit members and fillers; at least one kit member stays outside
        inside = kit[: max(1, min(len(kit) - 1, r.randint(1, 2)))]
        outside = kit[len(inside):]
        parts = inside + r.sample(fill, 3 - len(inside) if r.random() < 0.7 else 2 - min(len(inside), 1))
        parts = parts[:3] if len(parts) >= 3 else parts
        if len(parts) < 2:
            parts.append(r.choice(fill))
        shapes = nestings(r, parts)
        if r.random() < 0.4:
            lines.append(named(r.choice(fill)))
        rounds = r.randint(1, 3)
        for i in range(rounds):
            lines.append("(push 1)")
            lines.append(named(r.choice(shapes), 0.6))
            if r.random() < 0.3:
                lines.append(named(r.choice(fill)))
            lines.append("(check-sat)")
            if r.random() < 0.3:
                lines.append("(push 1)")
                for f in outside:
                    lines.append(named(f))
                query()
                lines.append("(pop 1)")
            lines.append("(pop 1)")
        if r.random() < 0.6:
            lines.append("(push 1)")
        final = r.choice(shapes) if r.random() < 0.7 else shapes[0]
        lines.append(named(final, 0.7))
        for f in outside:
            lines.append(named(f, 0.9))
        query(0.3)
    else:  # late
        for f in kit:
            lines.append(named(f, 0.95))
        for _ in range(r.randint(0, 2)):
            lines.append(named(r.choice(fill), 0.5))
        query()
        for _round in range(r.randint(1, 2)):
            pushed = r.random() < 0.5
            if pushed:
                lines.append("(push 1)")
            for f in r.sample(kit, r.randint(1, min(2, len(kit)))):
                shape = r.random()
                q = r.choice(fill)
                if shape < 0.5:
                    lines.append("(assert (and %s %s))" % (f, q))
                elif shape < 0.75:
                    lines.append("(assert (and %s %s))" % (q, f))
                else:
                    lines.append("(assert (not (or (not %s) (not %s))))" % (f, q))
            if r.random() < 0.3:
                lines.append(named(r.choice(fill)))
            query(0.3)
            if pushed and r.random() < 0.5:
                lines.append("(pop 1)")
                query()
    return "\n".join(lines) + "\n", dict(logic=logic, minimal=minimal, full=full, incremental=True, features=sorted(feats))


def gen_core_script(rng, logic=None, minimal=None, full=None, incremental=None, risky=0.25, n_kits=None, directed=0.3):
    """risky: probability scale of the constructs that are known to trigger genuine defects
    (term asserted both named and unnamed, nested names whose subterm is also asserted, non-Boolean ite in a
    named assertion, names popped and terms re-asserted).  The plain constructs are always used."""
    r = rng
    logic = logic or r.choice(LOGICS)
    minimal = (r.random() < 0.5) if minimal is None else minimal
    full = (r.random() < 0.3) if full is None else full
    incremental = (r.random() < 0.45) if incremental is None else incremental
    if r.random() < directed:
        kind = r.choice(["two-names", "reassert", "late"])
        if kind == "late" and minimal is None or (kind == "late" and r.random() < 0.7):
            minimal = True
        return gen_directed(r, kind, logic, minimal, full)
    g = scriptgen.Gen(r, logic, big=False, divmod=False)
    K = Kits(r, g)
    feats = set()
    lines = ["(set-option :produce-unsat-cores true)"]
    if minimal:
        lines.append("(set-option :minimal-unsat-cores true)")
    if full:
        lines.append("(set-option :print-cores-full true)")
    lines.append("(set-logic %s)" % ("QF_UF" if logic == "QF_BOOL" else logic))
    lines += g.decls
    lines += ["(declare-fun x%d%d () Bool)" % (i, j) for i in (1, 2, 3) for j in (1, 2)]
    cnt = [0]
    live_names, popped_names = [[]], []
    asserted = []            # (formula text, named?) of live assertions per level  (flat, for duplicates)

    def fresh():
        if popped_names and r.random() < 0.35:
            feats.add("popped-name-reused")
            n = popped_names.pop(r.randrange(len(popped_names)))
        else:
            cnt[0] += 1
            n = "n%d" % cnt[0]
        live_names[-1].append(n)
        return n

    p_named = r.choice([0.5, 0.7, 0.85, 1.0])

    def emit(f, force_named=None):
        named = (r.random() < p_named) if force_named is None else force_named
        k = r.random()
        if named:
            if k < 0.08 * risky * 4 and not full:
                # nested name on a strict subterm as well
                feats.add("nested-name")
                inner = r.choice(g.boolvars)
                lines.append("(assert (! (or %s (! %s :named %s)) :named %s))" % (f, inner, fresh(), fresh()))
            else:
                lines.append("(assert (! %s :named %s))" % (f, fresh()))
        else:
            if k < 0.06 * risky * 4:
                feats.add("nested-name-only")
                lines.append("(assert (and (! %s :named %s) true))" % (f, fresh()))   # name on a subterm of an unnamed assertion
            else:
                lines.append("(assert %s)" % f)
        asserted.append((f, named))

    def noise():
        # non-Boolean ite terms (IteHandler introduces auxiliary constants) only in a minority of the scripts
        for _ in range(20):
            f = g.formula(r.randint(1, 2))
            if "(ite " not in f or r.random() < 0.15 * risky:
                break
        if "(ite " in f:
            feats.add("ite-in-noise")
        return f

    def one_problem(close=True):
        """emit one kit with redundancy and noise, shuffled; returns number of assertions emitted"""
        kit, red = K.kit()
        items = [(f, "kit") for f in kit] + [(f, "red") for f in red]
        if r.random() < 0.5:
            k2, red2 = K.kit()
            items += [(f, "kit2") for f in k2] + [(f, "red") for f in red2]
            feats.add("two-kits")
        for _ in range(r.randint(0, 3)):
            items.append((noise(), "noise"))
        if r.random() < 0.4 and kit:
            items.append((r.choice(kit), "dup"))            # same term asserted again (another name or unnamed)
            feats.add("duplicate-term")
        if r.random() < 0.5 * risky:
            f = nonbool_ite(g, r)
            if f:
                items.append((f, "ite"))
                feats.add("nonbool-ite")
        if r.random() < 0.3 and len(items) >= 2:
            # conjoin two items into one assertion
            a = items.pop(r.randrange(len(items)))
            b = items.pop(r.randrange(len(items)))
            items.append(("(and %s %s)" % (a[0], b[0]), "conj"))
        if r.random() < 0.25:
            # guard a kit element by a literal that is refuted elsewhere
            i = r.randrange(len(items))
            pv = r.choice(g.boolvars)
            items[i] = ("(or %s %s)" % (items[i][0], pv), "guard")
            items.append(("(not %s)" % pv, "guard"))
            feats.add("guarded")
        r.shuffle(items)
        for f, kind in items:
            if kind == "dup":
                prev = [n for (ff, n) in asserted if ff == f]
                if prev and r.random() < risky:
                    feats.add("term-named-and-unnamed")
                    emit(f, force_named=not prev[-1])
                else:
                    emit(f, force_named=(prev[-1] if prev else None))
            else:
                emit(f)
        return len(items)

    def query():
        lines.append("(check-sat)")
        lines.append("(get-unsat-core)")
        if r.random() < 0.2:
            lines.append("(get-unsat-core)")
            feats.add("core-twice")
        if r.random() < 0.15:
            lines.append("(check-sat)")
            lines.append("(get-unsat-core)")
            feats.add("check-repeated")

    if not incremental:
        one_problem()
        if r.random() < 0.3:
            lines.append("(assert %s)" % r.choice(["true", "(not false)"]))
        query()
    else:
        level = 0
        steps = r.randint(3, 7)
        mark = []
        for s in range(steps):
            k = r.random()
            if k < 0.30 and level < 3:
                lines.append("(push 1)")
                level += 1
                live_names.append([])
                mark.append(len(asserted))
                one_problem()
                query()
            elif k < 0.55 and level > 0:
                n = 1 if r.random() < 0.8 or level == 1 else 2
                lines.append("(pop %d)" % n)
                for _ in range(n):
                    popped_names.extend(live_names.pop())
                    del asserted[mark.pop():]
                level -= n
                feats.add("pop")
                if r.random() < 0.5:
                    if r.random() < 0.5:
                        one_problem()
                    else:
                        emit(noise())
                    query()
            elif k < 0.75:
                emit(noise())
                if r.random() < 0.5:
                    query()
            elif k < 0.82:
                # option change in mid-script
                if r.random() < 0.5:
                    minimal = not minimal
                    lines.append("(set-option :minimal-unsat-cores %s)" % ("true" if minimal else "false"))
                else:
                    full = not full
                    lines.append("(set-option :print-cores-full %s)" % ("true" if full else "false"))
                feats.add("option-toggled")
            else:
                one_problem()
                query()
        if not lines[-1].startswith("(get-unsat-core"):
            one_problem()
            query()
    return "\n".join(lines) + "\n", dict(logic=logic, minimal=minimal, full=full, incremental=incremental, features=sorted(feats))
