"""Shared machinery of checks C26 / C11: run generated scripts on the hooked solver with tracing (in
parallel), turn trace events into queries of the extracted checkers (ocaml/th_driver.ml), classify
rejected clauses with the untrusted LP / reference solvers."""
import os
import random
import subprocess
import concurrent.futures as cf
from fractions import Fraction

import vlib
import thtrace as T
import thlp
import scriptgen_th as SG


# ---------------------------------------------------------------------------------------------
# running scripts
# ---------------------------------------------------------------------------------------------

def _run_one(args):
    idx, text, timeout, binary = args
    tmpd = os.path.join(vlib.BUILD, "tmp")
    os.makedirs(tmpd, exist_ok=True)
    tag = "%d_%d_%d" % (os.getpid(), idx, random.getrandbits(40))
    sp = os.path.join(tmpd, "th_%s.smt2" % tag)
    tp = os.path.join(tmpd, "th_%s.trace" % tag)
    with open(sp, "w") as f:
        f.write(text)
    env = dict(os.environ, OPENSMT_VERIF_TRACE=tp)
    out, err, rc = "", "", 0
    try:
        p = subprocess.run([binary, sp], stdout=subprocess.PIPE, stderr=subprocess.PIPE, timeout=timeout, env=env)
        out, err, rc = p.stdout.decode(errors="replace"), p.stderr.decode(errors="replace"), p.returncode
    except subprocess.TimeoutExpired:
        rc, err = -9, "timeout"
    trace = ""
    try:
        if os.path.exists(tp):
            with open(tp, errors="replace") as f:
                trace = f.read(64 * 1024 * 1024)
    finally:
        for p_ in (sp, tp):
            if os.path.exists(p_):
                os.remove(p_)
    return idx, rc, out, err, trace


def run_scripts(scripts, timeout=4, workers=None, binary=None):
    """scripts: list of dict(text=...). Adds rc/out/err/trace to each dict (in place) and returns the list."""
    binary = binary or vlib.opensmt_bin()
    workers = workers or min(14, (os.cpu_count() or 4))
    jobs = [(i, s["text"], timeout, binary) for i, s in enumerate(scripts)]
    with cf.ThreadPoolExecutor(max_workers=workers) as ex:
        for idx, rc, out, err, trace in ex.map(_run_one, jobs):
            s = scripts[idx]
            s["rc"], s["out"], s["err"], s["trace"] = rc, out, err, trace
    return scripts


# ---------------------------------------------------------------------------------------------
# LA literals
# ---------------------------------------------------------------------------------------------

def leq_atom(atom):
    """(<= a b) -> (s, c) with the meaning  c <= s  (s without constant part); None if not of that shape"""
    if isinstance(atom, str) or len(atom) != 3 or atom[0] not in ("<=", ">="):
        return None
    a, b = (atom[1], atom[2]) if atom[0] == "<=" else (atom[2], atom[1])
    l = T.lin_add(T.linearize(b), T.linearize(a), -1)
    c = -l.pop("", Fraction(0))
    return l, c


def eq_atom(atom):
    """(= a b) over arithmetic -> (s, c) meaning s = c"""
    if isinstance(atom, str) or len(atom) != 3 or atom[0] != "=":
        return None
    l = T.lin_add(T.linearize(atom[1]), T.linearize(atom[2]), -1)
    c = -l.pop("", Fraction(0))
    return l, c


def lit_constraint(isint, s, c, pol):
    """python mirror (untrusted, for the LP only) of LiaCheck.lit_constraint"""
    if isint:
        k = Fraction(-((-c.numerator) // c.denominator))       # ceil
        if pol:
            return (T.lin_scale(s, -1), "le", -k)
        return (dict(s), "le", k - 1)
    if pol:
        return (T.lin_scale(s, -1), "le", -c)
    return (dict(s), "lt", c)


def q(x):
    x = Fraction(x)
    return "%d/%d" % (x.numerator, x.denominator)


def encode_la(tag, isint, lits):
    """lits: list of (s: dict, c, pol, k).  Variables are numbered per query."""
    ids = {}
    parts = [tag, "1" if isint else "0", str(len(lits))]
    for s, c, pol, k in lits:
        parts += ["1" if pol else "0", q(c), q(k), str(len(s))]
        for v in sorted(s):
            parts += [str(ids.setdefault(v, len(ids) + 1)), q(s[v])]
    return " ".join(parts)


class Driver:
    def __init__(self, exe):
        self.exe = exe

    def batch(self, lines):
        if not lines:
            return []
        rc, out = vlib.sh([self.exe], input="\n".join(lines) + "\n", timeout=1800)
        res = out.split("\n")
        if res and res[-1] == "":
            res.pop()
        if rc != 0 or len(res) != len(lines):
            raise RuntimeError("th driver: rc=%s, %d answers for %d queries: %s" % (rc, len(res), len(lines), out[-300:]))
        return res


def find_coeffs(isint, lits):
    """lits: list of (s, c, pol) — a conjunction.  Untrusted LP over the (tightened) constraints."""
    cs = [lit_constraint(isint, s, c, pol) for s, c, pol in lits]
    return thlp.farkas(cs)


def la_event_lits(ev):
    """(la ...) event -> list of (s, c, pol, k) or None when an atom is not a <=-atom / a coefficient is missing"""
    out = []
    for atom, pol, k in ev.la:
        sc = leq_atom(atom)
        if sc is None:
            return None
        try:
            kk = Fraction(k)
        except (ValueError, ZeroDivisionError):
            return None
        out.append((sc[0], sc[1], pol, kk))
    return out


def script_for_conjunction(logic, decl_lines, lits_text):
    return "\n".join(["(set-logic %s)" % logic] + decl_lines + ["(assert %s)" % t for t in lits_text] + ["(check-sat)", "(get-model)"]) + "\n"


def declarations_of(script_text):
    """declare-sort / declare-fun / declare-const / define-fun lines of a generated script (one command per line)"""
    return [l for l in script_text.split("\n") if l.startswith(("(declare-", "(define-"))]


def get_driver(ctx):
    """the extracted checker executable (VERIF_TH_DRIVER: development shortcut, a prebuilt driver)"""
    dev = os.environ.get("VERIF_TH_DRIVER")
    if dev and os.path.exists(dev):
        ctx.note("development driver %s" % dev)
        return Driver(dev)
    exe, log = vlib.build_extracted("th")
    if not exe:
        ctx.tie_broken("extraction-th", log)
        return None
    return Driver(exe)
