"""Shared machinery of checks C26 / C11: run generated scripts on the hooked solver with tracing (in
parallel), turn trace events into queries of the extracted checkers (ocaml/th_driver.ml), classify
rejected clauses with the untrusted LP / reference solvers."""
import os
import random
import subprocess
import concurrent.futures as cf
from fractions import Fraction

import vlib
import thtrace as T
import thlp
import scriptgen_th as SG


# ---------------------------------------------------------------------------------------------
# running scripts
# ---------------------------------------------------------------------------------------------

def _run_one(args):
    idx, text, timeout, binary = args
    tmpd = os.path.join(vlib.BUILD, "tmp")
    os.makedirs(tmpd, exist_ok=True)
    tag = "%d_%d_%d" % (os.getpid(), idx, random.getrandbits(40))
    sp = os.path.join(tmpd, "th_%s.smt2" % tag)
    tp = os.path.join(tmpd, "th_%s.trace" % tag)
    with open(sp, "w") as f:
        f.write(text)
    trace = ""
    try:
        env = dict(os.environ, OPENSMT_VERIF_TRACE=tp)
        out, err, rc = "", "", 0
        for attempt in range(60):
            try:
                p = subprocess.run([binary, sp], stdout=subprocess.PIPE, stderr=subprocess.PIPE, timeout=timeout, env=env)
                out, err, rc = p.stdout.decode(errors="replace"), p.stderr.decode(errors="replace"), p.returncode
            except subprocess.TimeoutExpired:
                rc, err = -9, "timeout"
            except OSError as e:
                # the binary is being relinked by a concurrent incremental build of the same tree: wait for it
                if attempt == 59:
                    raise
                import time
                time.sleep(2)
                if os.path.exists(tp):
                    os.remove(tp)
                continue
            break
        if os.path.exists(tp):
            with open(tp, errors="replace") as f:
                trace = f.read(64 * 1024 * 1024)
    finally:
        for p_ in (sp, tp):
            if os.path.exists(p_):
                os.remove(p_)
    return idx, rc, out, err, trace


def run_scripts(scripts, timeout=4, workers=None, binary=None):
    """scripts: list of dict(text=...). Adds rc/out/err/trace to each dict (in place) and returns the list."""
    binary = binary or vlib.opensmt_bin()
    workers = workers or min(14, (os.cpu_count() or 4))
    jobs = [(i, s["text"], timeout, binary) for i, s in enumerate(scripts)]
    with cf.ThreadPoolExecutor(max_workers=workers) as ex:
        for idx, rc, out, err, trace in ex.map(_run_one, jobs):
            s = scripts[idx]
            s["rc"], s["out"], s["err"], s["trace"] = rc, out, err, trace
    return scripts


# ---------------------------------------------------------------------------------------------
# LA literals
# ---------------------------------------------------------------------------------------------

def leq_atom(atom):
    """(<= a b) -> (s, c) with the meaning  c <= s  (s without constant part); None if not of that shape"""
    if isinstance(atom, str) or len(atom) != 3 or atom[0] not in ("<=", ">="):
        return None
    a, b = (atom[1], atom[2]) if atom[0] == "<=" else (atom[2], atom[1])
    l = T.lin_add(T.linearize(b), T.linearize(a), -1)
    c = -l.pop("", Fraction(0))
    return l, c


def eq_atom(atom):
    """(= a b) over arithmetic -> (s, c) meaning s = c"""
    if isinstance(atom, str) or len(atom) != 3 or atom[0] != "=":
        return None
    l = T.lin_add(T.linearize(atom[1]), T.linearize(atom[2]), -1)
    c = -l.pop("", Fraction(0))
    return l, c


def lit_constraint(isint, s, c, pol):
    """python mirror (untrusted, for the LP only) of LiaCheck.lit_constraint"""
    if isint:
        k = Fraction(-((-c.numerator) // c.denominator))       # ceil
        if pol:
            return (T.lin_scale(s, -1), "le", -k)
        return (dict(s), "le", k - 1)
    if pol:
        return (T.lin_scale(s, -1), "le", -c)
    return (dict(s), "lt", c)


def q(x):
    x = Fraction(x)
    return "%d/%d" % (x.numerator, x.denominator)


def encode_la(tag, isint, lits):
    """lits: list of (s: dict, c, pol, k).  Variables are numbered per query."""
    ids = {}
    parts = [tag, "1" if isint else "0", str(len(lits))]
    for s, c, pol, k in lits:
        parts += ["1" if pol else "0", q(c), q(k), str(len(s))]
        for v in sorted(s):
            parts += [str(ids.setdefault(v, len(ids) + 1)), q(s[v])]
    return " ".join(parts)


class Driver:
    def __init__(self, exe):
        self.exe = exe

    def batch(self, lines):
        if not lines:
            return []
        rc, out = vlib.sh([self.exe], input="\n".join(lines) + "\n", timeout=1800)
        res = out.split("\n")
        if res and res[-1] == "":
            res.pop()
        if rc != 0 or len(res) != len(lines):
            raise RuntimeError("th driver: rc=%s, %d answers for %d queries: %s" % (rc, len(res), len(lines), out[-300:]))
        return res


def find_coeffs(isint, lits):
    """lits: list of (s, c, pol) — a conjunction.  Untrusted LP over the (tightened) constraints."""
    cs = [lit_constraint(isint, s, c, pol) for s, c, pol in lits]
    return thlp.farkas(cs)


def la_event_lits(ev):
    """(la ...) event -> list of (s, c, pol, k) or None when an atom is not a <=-atom / a coefficient is missing"""
    out = []
    for atom, pol, k in ev.la:
        sc = leq_atom(atom)
        if sc is None:
            return None
        try:
            kk = Fraction(k)
        except (ValueError, ZeroDivisionError):
            return None
        out.append((sc[0], sc[1], pol, kk))
    return out


def script_for_conjunction(logic, decl_lines, lits_text):
    return "\n".join(["(set-logic %s)" % logic] + decl_lines + ["(assert %s)" % t for t in lits_text] + ["(check-sat)", "(get-model)"]) + "\n"


def declarations_of(script_text):
    """declare-sort / declare-fun / declare-const / define-fun lines of a generated script (one command per line)"""
    return [l for l in script_text.split("\n") if l.startswith(("(declare-", "(define-"))]


def get_driver(ctx):
    """the extracted checker executable (VERIF_TH_DRIVER: development shortcut, a prebuilt driver)"""
    dev = os.environ.get("VERIF_TH_DRIVER")
    if dev and os.path.exists(dev):
        ctx.note("development driver %s" % dev)
        return Driver(dev)
    exe, log = vlib.build_extracted("th")
    if not exe:
        ctx.tie_broken("extraction-th", log)
        return None
    return Driver(exe)


# ---------------------------------------------------------------------------------------------
# sorts (to tell arithmetic equalities from uninterpreted ones)
# ---------------------------------------------------------------------------------------------

class SortEnv:
    """return sorts of the declared symbols of a generated script (+ the variables listed in an event)"""

    def __init__(self, script_text):
        self.ret = {}
        for cmd in T.parse_all(script_text):
            if isinstance(cmd, list) and cmd and cmd[0] in ("declare-fun", "define-fun") and len(cmd) >= 4:
                self.ret[T.show(cmd[1])] = T.show(cmd[3])
            elif isinstance(cmd, list) and cmd and cmd[0] == "declare-const" and len(cmd) >= 3:
                self.ret[T.show(cmd[1])] = T.show(cmd[2])

    def sort_of(self, t, evvars):
        if T.const_value(t) is not None:
            return "Num"
        if isinstance(t, str):
            if t in ("true", "false"):
                return "Bool"
            return evvars.get(t) or self.ret.get(t)
        h = t[0]
        if h in ("+", "-", "*", "/"):
            return "Num"
        if h == "select":
            s = self.sort_of(t[1], evvars)
            if s:
                e = T.parse_one(s)
                if isinstance(e, list) and len(e) == 3 and e[0] == "Array":
                    return T.show(e[2])
            return None
        if h == "store":
            return self.sort_of(t[1], evvars)
        if h == "ite":
            return self.sort_of(t[2], evvars)
        if h in ("=", "distinct", "<=", "<", ">=", ">", "not", "and", "or"):
            return "Bool"
        if isinstance(h, str):
            return self.ret.get(h)
        return None

    def is_num(self, t, evvars):
        return self.sort_of(t, evvars) in ("Num", "Int", "Real")


# ---------------------------------------------------------------------------------------------
# EUF clauses -> term DAG
# ---------------------------------------------------------------------------------------------

class Unsupported(Exception):
    pass


def encode_euf(lits, arrays=False, splits=0):
    """lits: list of (atom, pol) of a clause.  Returns the E-query line (CC.euf_clause_check); with arrays=True the
    A-query line (CC.arr_clause_check) over a DAG that also contains select(s, j), select(a, j) for every store term
    s = store(a, i, e) and every index term j of the clause (extra nodes are harmless: they only have to be consistent).
    Boolean atoms P are read two-valued:  the clause literal P is false iff P = false,  (not P) iff P = true."""
    nodes, index, syms = [], {}, {}

    def sym(name):
        return syms.setdefault(name, len(syms) + 1)

    dcs = []

    def node(t):
        cv = T.const_value(t)
        key = ("#", cv) if cv is not None else T.show(t)
        if key in index:
            return index[key]
        if cv is not None:
            f, ch = sym("#%s" % cv), []
        elif isinstance(t, str):
            f, ch = sym(t), []
        else:
            if not isinstance(t[0], str):
                raise Unsupported("head " + T.show(t))
            ch = [node(x) for x in t[1:]]
            f = sym("%s/%d" % (t[0], len(ch)))
        i = len(nodes)
        nodes.append((f, ch))
        index[key] = i
        if cv is not None or key in ("true", "false"):
            dcs.append(i)
        return i

    TRUE, FALSE = node("true"), node("false")
    cl = []
    for atom, pol in lits:
        if not isinstance(atom, str) and atom[0] == "=" and len(atom) == 3:
            cl.append((node(atom[1]), node(atom[2]), pol))
        elif not isinstance(atom, str) and atom[0] == "distinct":
            args = [node(x) for x in atom[1:]]
            if pol and len(args) == 2:
                cl.append((args[0], args[1], False))
            elif not pol:
                for i in range(len(args)):
                    for j in range(i + 1, len(args)):
                        cl.append((args[i], args[j], True))
            else:
                raise Unsupported("positive distinct with %d arguments" % len(args))
        else:
            n = node(atom)
            cl.append((n, FALSE if pol else TRUE, False))
    head = ["E"]
    if arrays:
        stores, idxs = [], []
        for key, i in list(index.items()):
            pass
        def walk(t):
            if isinstance(t, str) or T.const_value(t) is not None:
                return
            if t[0] == "store" and len(t) == 4:
                stores.append(t)
                idxs.append(t[2])
            if t[0] == "select" and len(t) == 3:
                idxs.append(t[2])
            for x in t[1:]:
                walk(x)
        for atom, _ in lits:
            walk(atom)
        seen_i = []
        for j in idxs:
            if T.show(j) not in [T.show(x) for x in seen_i]:
                seen_i.append(j)
        for st in stores:
            for j in seen_i:
                if len(nodes) > 400:
                    break
                node(["select", st, j])
                node(["select", st[1], j])
        head = ["A", str(sym("select/2")), str(sym("store/3"))]
        if splits:
            # case analysis on (store index, other index) pairs, store indices first; the checker tries them in order
            sidx = [node(st[2]) for st in stores]
            allidx = [node(j) for j in seen_i]
            pairs = []
            for a_ in dict.fromkeys(sidx):
                for b_ in allidx:
                    if a_ != b_ and (b_, a_) not in pairs and (a_, b_) not in pairs:
                        pairs.append((a_, b_))
            pairs = pairs[:splits]
            head = ["S", str(sym("select/2")), str(sym("store/3")), str(len(pairs))] + [str(x) for p_ in pairs for x in p_]
    parts = head + [str(len(nodes))]
    for f, ch in nodes:
        parts += [str(f), str(len(ch))] + [str(c) for c in ch]
    parts.append(str(len(cl)))
    for a, b, p in cl:
        parts += [str(a), str(b), "1" if p else "0"]
    parts.append(str(len(dcs)))
    parts += [str(d) for d in dcs]
    return " ".join(parts)


# ---------------------------------------------------------------------------------------------
# LA clauses, possibly with equality atoms / without coefficients  (ThClause.mixed_clause_check)
# ---------------------------------------------------------------------------------------------

def encode_mixed(isint, lits, env=None, evvars=None):
    """lits: list of (atom, pol) of a clause.  Finds coefficients with the untrusted LP and returns the M-query
    line, or raises Unsupported (an atom that is not arithmetic) / returns None when the LP finds no certificate."""
    gl = []     # (kind, s, c, pol)
    for atom, pol in lits:
        sc = leq_atom(atom)
        if sc is not None:
            gl.append(("L", sc[0], sc[1], pol))
            continue
        sc = eq_atom(atom)
        if sc is not None and (env is None or env.is_num(atom[1], evvars) or env.is_num(atom[2], evvars)):
            gl.append(("E", sc[0], sc[1], pol))
            continue
        raise Unsupported("not an arithmetic atom: " + T.show(atom))
    pos_eq = [i for i, g in enumerate(gl) if g[0] == "E" and g[3]]
    cands = [None] + pos_eq

    def negc(g):
        kind, s, c, pol = g
        if kind == "L":
            return lit_constraint(isint, s, c, not pol)
        return (dict(s), "eq", c)

    for d in cands:
        rest = [g for i, g in enumerate(gl) if i != d]
        usable = [i for i, g in enumerate(rest) if not (g[0] == "E" and g[3])]
        base = [negc(rest[i]) for i in usable]
        if d is None:
            lam = thlp.farkas(base) if base else None
            if lam is None:
                continue
            ks1 = [Fraction(0)] * len(rest)
            for i, l in zip(usable, lam):
                ks1[i] = l
            return _mixed_line(isint, None, rest, Fraction(0), ks1, Fraction(0), [Fraction(0)] * len(rest))
        _, s, c, _ = gl[d]
        side1 = [lit_constraint(isint, s, c, False)] + base
        side2 = [lit_constraint(isint, T.lin_scale(s, -1), -c, False)] + base
        l1, l2 = thlp.farkas(side1), thlp.farkas(side2)
        if l1 is None or l2 is None or l1[0] == 0 or l2[0] == 0:
            continue
        ks1 = [Fraction(0)] * len(rest)
        ks2 = [Fraction(0)] * len(rest)
        for i, a, b in zip(usable, l1[1:], l2[1:]):
            ks1[i], ks2[i] = a, b
        return _mixed_line(isint, (s, c), rest, l1[0], ks1, l2[0], ks2)
    return None


def _mixed_line(isint, d, rest, kd1, ks1, kd2, ks2):
    ids = {}

    def lin(s):
        out = [str(len(s))]
        for v in sorted(s):
            out += [str(ids.setdefault(v, len(ids) + 1)), q(s[v])]
        return out
    parts = ["M", "1" if isint else "0"]
    if d is None:
        parts.append("0")
    else:
        parts += ["1", q(d[1]), q(kd1), q(kd2)] + lin(d[0])
    parts.append(str(len(rest)))
    for (kind, s, c, pol), k1, k2 in zip(rest, ks1, ks2):
        parts += [kind, "1" if pol else "0", q(c), q(k1), q(k2)] + lin(s)
    return " ".join(parts)


def encode_la_clause_with_coeffs(isint, ev):
    """theory clause that comes with an (la ...) event: K-query (all literals used, coefficients as given)"""
    lits = la_event_lits(ev.la)
    if lits is None:
        return None
    return encode_la("K", isint, [(s, c, not pol, k) for s, c, pol, k in lits])


# ---------------------------------------------------------------------------------------------
# reference solvers on the negation of a rejected clause (search only)
# ---------------------------------------------------------------------------------------------

def oracle_negation(script_text, ev, timeout=10):
    """Is the conjunction of the negated literals satisfiable?  Returns (verdict, detail) with verdict in
    'sat' (some oracle has a model: the clause is not valid), 'unsat' (both agree it is valid), 'unknown'."""
    decls = declarations_of(script_text)
    declared = set()
    for d in decls:
        e = T.parse_one(d)
        declared.add(T.show(e[1]))
    def ren(e):
        # auxiliary variables of the solver (.purify_N, .ite_N ...): symbols starting with '.' are reserved
        if isinstance(e, str):
            return "aux_" + e[1:] if e.startswith(".") else e
        return [ren(x) for x in e]
    extra = ["(declare-fun %s () %s)" % (ren(v), s) for v, s in ev.vars if v not in declared]
    body = []
    for t in ev.terms:
        a, pol = T.split_literal(t)
        a = ren(a)
        body.append("(assert %s)" % (("(not %s)" % T.show(a)) if pol else T.show(a)))
    text = "\n".join(["(set-logic ALL)"] + decls + extra + body + ["(check-sat)", "(get-model)"]) + "\n"
    res = {}
    for solver in ("z3", "cvc5"):
        rc, out = vlib.run_ref(solver, text, timeout=timeout)
        first = out.strip().split("\n")[0].strip() if out.strip() else ""
        res[solver] = (first, out[:1500])
    firsts = [res[s][0] for s in res]
    if "sat" in firsts:
        s = [k for k in res if res[k][0] == "sat"][0]
        return "sat", dict(solver=s, model=res[s][1], query=text, answers=firsts)
    if all(f == "unsat" for f in firsts):
        return "unsat", dict(query=text, answers=firsts)
    return "unknown", dict(query=text, answers=firsts, raw={k: v[1][:300] for k, v in res.items()})


def confirm_la_model(ev, model_text):
    """Exact evaluation (python fractions) of the negated clause under a model printed by a reference solver; only
    for clauses whose atoms are linear arithmetic over variables.  Returns True (all negated literals hold: the
    clause is false under the model), False, or None (not applicable)."""
    try:
        i = model_text.find("(")
        m = T.parse_one(model_text[i:]) if i >= 0 else None
    except T.ParseError:
        return None
    if not isinstance(m, list):
        return None
    val = {}
    for d in m:
        if isinstance(d, list) and len(d) == 5 and d[0] == "define-fun" and d[2] == []:
            v = T.const_value(d[4])
            if v is not None:
                name = T.show(d[1])
                val[name] = v
                if name.startswith("aux_"):
                    val["." + name[4:]] = v
    for t in ev.terms:
        atom, pol = T.split_literal(t)
        sc = leq_atom(atom)
        kind = "le"
        if sc is None:
            sc = eq_atom(atom)
            kind = "eq"
        if sc is None:
            return None
        s_, c = sc
        tot = Fraction(0)
        for v, k in s_.items():
            if v not in val:
                return None
            tot += k * val[v]
        truth = (c <= tot) if kind == "le" else (tot == c)
        if truth == pol:        # the clause literal is true under the model: not a counter-model
            return False
    return True


def corpus_scripts(pid):
    """minimised / recorded failing scripts kept as regression inputs (run first)"""
    import glob
    import re
    out = []
    for f in sorted(glob.glob(os.path.join(vlib.VERIF, "corpus", pid, "*.smt2"))):
        text = open(f).read()
        m = re.search(r"\(set-logic\s+([A-Z_]+)\)", text)
        out.append(dict(text=text, logic=m.group(1) if m else "QF_LRA", engine="corpus", big=None, features=[],
                        family="corpus:" + os.path.basename(f)))
    return out
