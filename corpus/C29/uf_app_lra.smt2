; uninterpreted function under QF_LRA (no UF in the logic): unsat through congruence   cls=opaque:uf-app
(set-logic QF_LRA)
(declare-fun f (Real) Real)
(declare-fun x () Real)
(declare-fun y () Real)
(assert (<= x y))
(assert (<= y x))
(assert (< (f x) (f y)))
(check-sat)
