; the rejected atom reaches the solver twice (second check-sat)   cls=non-dl-atom:sum
(set-logic QF_IDL)
(declare-fun x () Int)
(declare-fun y () Int)
(assert (<= (+ x y) 1))
(assert (>= x 1))
(assert (>= y 1))
(check-sat)
(check-sat)
