; uninterpreted function under a pure difference logic   cls=opaque:uf-app
(set-logic QF_RDL)
(declare-fun f (Real) Real)
(declare-fun x () Real)
(declare-fun y () Real)
(assert (<= x y))
(assert (<= y x))
(assert (< (f x) (f y)))
(check-sat)
