; without the (pop 3): unsat.  with it: error after both levels were popped, then sat
(set-logic QF_UF)
(declare-fun a () Bool)
(push 1)
(assert a)
(push 1)
(pop 3)
(assert (not a))
(check-sat)
