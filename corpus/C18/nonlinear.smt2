(set-logic QF_LRA)(declare-fun x () Real)(declare-fun y () Real)(assert (= (* x y) 1))(check-sat)
