(set-logic QF_UF)(assert (! true :named))
