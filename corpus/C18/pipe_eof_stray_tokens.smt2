(set-logic QF_UF)
(check-sat)
 set-option :produce-interpolants 
