(set-option :produce-interpolants true)(set-logic QF_UF)(declare-fun p () Bool)(assert (! p :named A))(assert (! (not p) :named B))(check-sat)(get-interpolants A)
