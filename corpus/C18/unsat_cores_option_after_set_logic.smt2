(set-logic QF_UF)(set-option :produce-unsat-cores true)(declare-fun p () Bool)(assert (! p :named a))(assert (! (not p) :named b))(check-sat)(get-unsat-core)
