(set-logic QF_UF)
(check-sat)
