(set-logic QF_LIA)(declare-fun x () Int)(assert (= (div x 0) 1))(check-sat)
