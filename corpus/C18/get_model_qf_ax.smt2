(set-option :produce-models true)(set-logic QF_AX)(declare-sort I 0)(declare-sort E 0)(declare-fun a () (Array I E))(check-sat)(get-model)
