(set-logic QF_UF)(assert %s%s%s%s%s%s%s)(check-sat)
