(set-logic QF_UF)
(foo)
(check-sat)
