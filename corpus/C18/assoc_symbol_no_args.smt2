(set-logic QF_LIA)(assert -)
